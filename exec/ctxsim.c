/*
 * ctxsim executor (DESIGN.md 3.6.2 / 3.6.3): K library contexts, each with its own script of
 * selections, work items, failures and probes; the plan interleaves the scripts at step
 * granularity with core_set() before every step.
 *
 * Plan:   STEP <ctx> <item> [args]      (ctx 0 is the library's default context)
 * Transcript: for each context i that ran at least one step:  "CTX <i>" followed by its lines.
 */
#include "simcommon.h"
#include "ctxsteps.h"

#define NCTX 4

static ctx_t *ctxs[NCTX];
static int inited[NCTX];
static char *cbuf[NCTX];
static size_t clen[NCTX], ccap[NCTX];

static void engine_boot(void) {
	uint8_t seed[64];
	memset(seed, 0x66, sizeof(seed));
	sim_dev_reset(&sim_dev_main, seed, sizeof(seed), 31);
	if (core_init() != RLC_OK) _exit(4);
	ctxs[0] = core_get();
	inited[0] = 1;
	for (int i = 1; i < NCTX; i++) {
		ctxs[i] = (ctx_t *)sim_sys_malloc(sizeof(ctx_t));
		memset(ctxs[i], 0, sizeof(ctx_t));
		inited[i] = 0;
	}
}

static void use_ctx(int i) {
	core_set(ctxs[i]);
	if (!inited[i]) {
		if (i == 0) {
			core_set(NULL);
		}
		if (core_init() != RLC_OK) {
			/* reported through the script's own transcript */
		}
		if (i == 0) ctxs[0] = core_get();
		inited[i] = 1;
	}
}

static void engine_run(void) {
	char *line, *tok[16];
	uint8_t seed[64];
	/* every plan starts from clean contexts */
	for (int i = 0; i < NCTX; i++) {
		if (inited[i]) {
			core_set(ctxs[i]);
			core_clean();
			inited[i] = 0;
		}
		clen[i] = 0;
	}
	memset(seed, 0x66, sizeof(seed));
	sim_dev_reset(&sim_dev_main, seed, sizeof(seed), 31);
	char *main_buf = tr_buf;
	size_t main_len = tr_len, main_cap = tr_cap;
	while ((line = plan_next_line()) != NULL) {
		int n = plan_split(line, tok, 16);
		if (n >= 3 && !strcmp(tok[0], "CTXFILL")) {
			/* a context is storage of the caller's: before its first initialisation it may hold anything */
			int c = atoi(tok[1]) % NCTX;
			if (c > 0 && !inited[c]) memset(ctxs[c], atoi(tok[2]) & 0xFF, sizeof(ctx_t));
			continue;
		}
		if (n < 3 || strcmp(tok[0], "STEP") != 0) continue;
		int i = atoi(tok[1]) % NCTX;
		use_ctx(i);
		/* this context's lines go to its own buffer */
		tr_buf = cbuf[i]; tr_len = clen[i]; tr_cap = ccap[i];
		if (!strcmp(tok[2], "FINI")) {
			/* finalise this context now; the others keep computing */
			int rc = core_clean();
			inited[i] = 0;
			tr_printf("FINI rc=%d\n", rc != RLC_OK);
		} else
		cs_step(tok + 2, n - 2);
		cbuf[i] = tr_buf; clen[i] = tr_len; ccap[i] = tr_cap;
	}
	tr_buf = main_buf; tr_len = main_len; tr_cap = main_cap;
	for (int i = 0; i < NCTX; i++) {
		if (clen[i] == 0) continue;
		tr_printf("CTX %d\n", i);
		tr_reserve(clen[i]);
		memcpy(tr_buf + tr_len, cbuf[i], clen[i]);
		tr_len += clen[i];
	}
}
