/*
 * drbgsim executor: generate/reseed call histories on the library generator,
 * with a simulated entropy device (DESIGN.md 3.5).
 *
 * Every generate request made anywhere in the library reaches
 * __wrap_rand_bytes (link-time --wrap=rand_bytes) and is logged as
 *     RB <len> <rc> <hex bytes>
 * Plan body:
 *   DEV <hex entropy> chunks=<c1,c2,..> [openfail]   program the device
 *   INIT                                  core_clean(); core_init()
 *   SEED <hex>                            rand_clean(); rand_seed()  (instantiate)
 *   RESEED <hex>                          rand_seed()                (reseed)
 *   GEN <len>                             rand_bytes into a canaried buffer
 *   GENLOOP <n> <len>                     n requests, only the last one logged in full
 *   BNRAND <bits> <sign>                  bn_rand
 *   BNRANDMOD <hex bound> [alias]         bn_rand_mod; alias: the result object is the bound object (in place)
 *   CTX <i>                               switch to context i (0..1)
 *   SNAP <slot> / RESTORE <slot>          copy the generator state out / back
 */
#include "simcommon.h"

#define NCTX 2
#define NSLOT 4
#define CANARY 32

static ctx_t *ctxs[NCTX];
static int ctx_ready[NCTX];
static int cur;

typedef struct {
	uint8_t rand[RLC_RAND_SIZE];
	int counter, seeded;
	int valid;
} snap_t;
static snap_t snaps[NSLOT];

static int rb_quiet = 0;
static long rb_calls = 0;

void __real_rand_bytes(uint8_t *buf, size_t size);

void __wrap_rand_bytes(uint8_t *buf, size_t size) {
	__real_rand_bytes(buf, size);
	/* reached only if the request was not refused by a throw into an enclosing block */
	rb_calls++;
	if (rb_quiet) return;
	tr_printf("RB %zu ", size);
	tr_hex(buf, size);
	tr_str("\n");
}

static uint8_t big[70000 + 2 * CANARY];
static uint8_t tmp[4096];

static void op_gen(size_t len, uint64_t pat, int bare) {
	uint64_t s = pat;
	/* heap block of exact size so that ASan sees any overrun; canaries as well */
	uint8_t *b = (uint8_t *)malloc(len + 2 * CANARY);
	uint8_t ref[2 * CANARY];
	sim_fill(b, len + 2 * CANARY, &s);
	memcpy(ref, b, CANARY);
	memcpy(ref + CANARY, b + CANARY + len, CANARY);
	uint8_t first = b[CANARY], last = len ? b[CANARY + len - 1] : 0;
	int thrown = 0;
	if (bare) {
		/* a caller without a protected block: an error is reported through the sticky code only */
		rand_bytes(b + CANARY, len);
	} else {
		RLC_TRY {
			rand_bytes(b + CANARY, len);
		} RLC_CATCH_ANY {
			thrown = 1;
		}
	}
	int canary_ok = memcmp(ref, b, CANARY) == 0 && memcmp(ref + CANARY, b + CANARY + len, CANARY) == 0;
	int untouched = len == 0 || (b[CANARY] == first && b[CANARY + len - 1] == last);
	tr_printf("GEN %zu thrown=%d canary=%d untouched=%d code=%d\n", len, thrown, canary_ok, untouched,
			err_get_code() == RLC_OK ? 0 : 1);
	free(b);
}

static void log_bn(const char *tag, bn_t a) {
	int l = bn_size_bin(a);
	bn_write_bin(tmp, l, a);
	tr_printf("%s sign=%d bits=%zu ", tag, bn_sign(a) == RLC_NEG ? 1 : 0, bn_bits(a));
	tr_hex(tmp, (size_t)l);
	tr_str("\n");
}

static void engine_boot(void) {
	uint8_t seed[64];
	memset(seed, 0xA5, sizeof(seed));
	sim_dev_reset(&sim_dev_main, seed, sizeof(seed), 99);
	if (core_init() != RLC_OK) _exit(4);
	ctxs[0] = core_get();
	ctx_ready[0] = 1;
	ctxs[1] = (ctx_t *)sim_sys_malloc(sizeof(ctx_t));
	memset(ctxs[1], 0, sizeof(ctx_t));
	ctx_ready[1] = 0;
}

static void engine_run(void) {
	char *line, *tok[16];
	uint64_t pat = 0x1234;
	/* start every plan from context 0, initialised from a fixed device stream */
	{
		uint8_t seed[64];
		memset(seed, 0xA5, sizeof(seed));
		core_set(ctxs[0]);
		core_clean();
		sim_dev_reset(&sim_dev_main, seed, sizeof(seed), 99);
		core_set(ctxs[0]);
		if (core_init() != RLC_OK) _exit(4);
		if (ctx_ready[1]) {
			core_set(ctxs[1]);
			core_clean();
			ctx_ready[1] = 0;
			core_set(ctxs[0]);
		}
		/* the second context is the harness's own block: start every plan from zeroed storage, so that a
		 * failed initialisation (device error) leaves the same unseeded state in every execution */
		memset(ctxs[1], 0, sizeof(ctx_t));
		cur = 0;
		for (int i = 0; i < NSLOT; i++) snaps[i].valid = 0;
		rb_quiet = 0;
	}
	while ((line = plan_next_line()) != NULL) {
		int n = plan_split(line, tok, 16);
		if (n == 0) continue;
		if (strcmp(tok[0], "DEV") == 0) {
			uint8_t ent[1024];
			long el = hex_decode(tok[1], ent, sizeof(ent));
			if (el < 0) el = 0;
			sim_dev_reset(&sim_dev_main, ent, (size_t)el, 99);
			const char *ch = tok_kv(tok, n, "chunks");
			if (ch) {
				const char *p = ch;
				while (*p && sim_dev_main.nchunks < SIM_DEV_MAXCHUNK) {
					sim_dev_main.chunks[sim_dev_main.nchunks++] = (int)strtol(p, (char **)&p, 10);
					if (*p == ',') p++;
				}
			}
			sim_dev_main.open_fail = tok_has(tok, n, "openfail");
			tr_printf("DEV %ld\n", el);
		} else if (strcmp(tok[0], "INIT") == 0) {
			core_clean();
			core_set(ctxs[cur]);
			int rc = core_init();
			ctx_ready[cur] = 1;
			sim_dev_t *d = &sim_dev_main;
			tr_printf("INIT rc=%d open=%ld read=%ld short=%ld zero=%ld err=%ld close=%ld isopen=%d code=%d delivered=",
					rc == RLC_OK ? 0 : 1, d->n_open, d->n_read, d->n_short, d->n_zero, d->n_err, d->n_close,
					d->is_open, err_get_code() == RLC_OK ? 0 : 1);
			tr_hex(d->delivered, d->delivered_len);
			tr_str("\n");
		} else if (strcmp(tok[0], "SEED") == 0 || strcmp(tok[0], "RESEED") == 0) {
			long l = hex_decode(tok[1], tmp, sizeof(tmp));
			int thrown = 0;
			if (tok[0][0] == 'S') rand_clean();
			RLC_TRY {
				rand_seed(tmp, (size_t)(l < 0 ? 0 : l));
			} RLC_CATCH_ANY {
				thrown = 1;
			}
			tr_printf("%s %ld thrown=%d code=%d\n", tok[0], l, thrown, err_get_code() == RLC_OK ? 0 : 1);
		} else if (strcmp(tok[0], "GEN") == 0) {
			op_gen((size_t)strtoul(tok[1], NULL, 10), pat++, n > 2 && !strcmp(tok[2], "bare"));
		} else if (strcmp(tok[0], "GENLOOP") == 0) {
			long cnt = strtol(tok[1], NULL, 10);
			size_t len = (size_t)strtoul(tok[2], NULL, 10);
			if (len > 4096) len = 4096;
			rb_quiet = 1;
			for (long i = 0; i + 1 < cnt; i++) rand_bytes(tmp, len);
			rb_quiet = 0;
			if (cnt > 0) rand_bytes(tmp, len);
			tr_printf("GENLOOP %ld %zu code=%d\n", cnt, len, err_get_code() == RLC_OK ? 0 : 1);
		} else if (strcmp(tok[0], "BNRAND") == 0) {
			bn_t a;
			bn_null(a);
			int thrown = 0;
			size_t bits = (size_t)strtoul(tok[1], NULL, 10);
			int sign = atoi(tok[2]) ? RLC_NEG : RLC_POS;
			RLC_TRY {
				bn_new(a);
				bn_rand(a, sign, bits);
				log_bn("BNRAND", a);
			} RLC_CATCH_ANY {
				thrown = 1;
			} RLC_FINALLY {
				bn_free(a);
			}
			tr_printf("BNRAND-END thrown=%d code=%d\n", thrown, err_get_code() == RLC_OK ? 0 : 1);
		} else if (strcmp(tok[0], "BNRANDMOD") == 0) {
			bn_t a, b;
			bn_null(a); bn_null(b);
			int thrown = 0;
			long l = hex_decode(tok[1], tmp, sizeof(tmp));
			RLC_TRY {
				bn_new(a); bn_new(b);
				bn_read_bin(b, tmp, (size_t)l);
				if (n >= 3 && strcmp(tok[2], "alias") == 0) {
					bn_rand_mod(b, b);
					log_bn("BNRANDMOD", b);
				} else {
					bn_rand_mod(a, b);
					log_bn("BNRANDMOD", a);
				}
			} RLC_CATCH_ANY {
				thrown = 1;
			} RLC_FINALLY {
				bn_free(a); bn_free(b);
			}
			tr_printf("BNRANDMOD-END thrown=%d code=%d\n", thrown, err_get_code() == RLC_OK ? 0 : 1);
		} else if (strcmp(tok[0], "CTXFILL") == 0 && n >= 2) {
			/* the second context is storage of the caller's: before its first initialisation it may hold anything
			 * (the test suite initialises a context that lives, unwritten, on the stack) */
			if (!ctx_ready[1]) memset(ctxs[1], atoi(tok[1]) & 0xFF, sizeof(ctx_t));
		} else if (strcmp(tok[0], "CTX") == 0) {
			int to = atoi(tok[1]) % NCTX;
			core_set(ctxs[to]);
			cur = to;
			if (!ctx_ready[to]) {
				int rc = core_init();
				ctx_ready[to] = 1;
				tr_printf("CTX %d init rc=%d code=%d delivered=", to, rc == RLC_OK ? 0 : 1,
						err_get_code() == RLC_OK ? 0 : 1);
				tr_hex(sim_dev_main.delivered, sim_dev_main.delivered_len);
				tr_str("\n");
			} else {
				tr_printf("CTX %d\n", to);
			}
		} else if (strcmp(tok[0], "SNAP") == 0) {
			int s = atoi(tok[1]) % NSLOT;
			ctx_t *c = core_get();
			memcpy(snaps[s].rand, c->rand, sizeof(c->rand));
			snaps[s].counter = c->counter;
			snaps[s].seeded = c->seeded;
			snaps[s].valid = 1;
			tr_printf("SNAP %d\n", s);
		} else if (strcmp(tok[0], "RESTORE") == 0) {
			int s = atoi(tok[1]) % NSLOT;
			if (snaps[s].valid) {
				ctx_t *c = core_get();
				memcpy(c->rand, snaps[s].rand, sizeof(c->rand));
				c->counter = snaps[s].counter;
				c->seeded = snaps[s].seeded;
				tr_printf("RESTORE %d ok\n", s);
			} else {
				tr_printf("RESTORE %d none\n", s);
			}
		}
	}
}
