/*
 * protosim executor (DESIGN.md 3.1/3.2): protocol sessions whose parties exchange only encoded
 * messages over a fault-injecting wire; a dishonest party may substitute values before sending.
 *
 * Plan:
 *   ENTROPY <hex>            re-instantiate the generator
 *   CURVE <name>             prime curve (+ pairing stack on BN_P256 / B12_P381); exports PARAM
 *   RSAKEY <bits>            generate the run's RSA key pair (exports KEY rsa ...)
 *   PHKEY <bits>             generate the run's Paillier key pair
 *   SESSION <sid> <scheme> [k=v ...]   create a session (phase 0)
 *   FAULT <sid> <field> <kind> <a> <b> attach a fault to a named message field of the session
 *   STEP <sid>               run the session's next phase (sessions interleave on one context)
 *
 * Transcript (per session, prefixed with the session id):
 *   MSG <sid> <field> <type> kind=<fault|none> orig=<hex> sent=<hex> dec=<ok|err> val=<hex canonical re-encoding>
 *   VER <sid> <name> <0|1>   a verifier's verdict        RC <sid> <name> <0|1>  a return code (1 = error)
 *   OUT <sid> <name> <hex>   a derived value             KEY/PARAM ...          exported for the models
 */
#include "simcommon.h"

#define NSESS 8
#define NBN 24
#define NEC 10
#define NG 10
#define NBUF 6
#define BUFSZ 1536
#define NFAULT 8

typedef struct {
	char field[16];
	char kind[16];
	long a, b;
	int used;
} fault_t;

typedef struct sess {
	int used, phase, done, sid;
	char scheme[16];
	bn_t b[NBN];
	ec_t e[NEC];
	g1_t g1[NG];
	g2_t g2[NG];
	gt_t gt[NG];
	uint8_t msg[600];
	size_t msg_len;
	uint8_t buf[NBUF][BUFSZ];
	size_t blen[NBUF];
	long opt[8];
	fault_t f[NFAULT];
	int nf;
	int flag[8];
} sess_t;

static sess_t S[NSESS];
static int has_pc = 0, cur_curve = -1;
static rsa_t rsa_pub, rsa_prv;
static int have_rsa = 0;
static int s_cur_sid = 0;
static bn_t ph_pub;
static phpe_t ph_prv;
static int have_ph = 0;
static bn_t ord;			/* group order of the current curve */
static uint8_t wire[4096], wire2[4096];

/*============================================================================*/
/* Logging helpers                                                            */
/*============================================================================*/

static void log_bn_kv(const char *k, const bn_t a) {
	uint8_t t[RLC_BN_SIZE * 8 + 8];
	size_t l = bn_size_bin(a);
	bn_write_bin(t, l, a);
	tr_printf(" %s=%s", k, bn_sign(a) == RLC_NEG ? "-" : "");
	tr_hex(t, l);
}

static void log_fp_kv(const char *k, const fp_t a) {
	uint8_t t[RLC_FP_BYTES];
	fp_write_bin(t, RLC_FP_BYTES, a);
	tr_printf(" %s=", k);
	tr_hex(t, RLC_FP_BYTES);
}

static void log_ver(sess_t *s, const char *name, int v) { tr_printf("VER %d %s %d\n", s->sid, name, v ? 1 : 0); }
static void log_rc(sess_t *s, const char *name, int rc) { tr_printf("RC %d %s %d\n", s->sid, name, rc == RLC_OK ? 0 : 1); }
static void log_out(sess_t *s, const char *name, const uint8_t *b, size_t n) {
	tr_printf("OUT %d %s ", s->sid, name);
	tr_hex(b, n);
	tr_str("\n");
}
static void log_out_bn(sess_t *s, const char *name, const bn_t a) {
	tr_printf("OUT %d %s", s->sid, name);
	log_bn_kv("v", a);
	tr_str("\n");
}

static fault_t *find_fault(sess_t *s, const char *field) {
	for (int i = 0; i < s->nf; i++) {
		if (s->f[i].used && strcmp(s->f[i].field, field) == 0) return &s->f[i];
	}
	return NULL;
}

/* byte-level wire faults shared by every message type; returns the new length */
static size_t wire_fault(uint8_t *p, size_t len, const fault_t *f) {
	const char *k = f->kind;
	if (!strcmp(k, "flip")) { if (len) p[(f->a / 8) % len] ^= (uint8_t)(1 << (f->a % 8)); }
	else if (!strcmp(k, "set")) { if (len) p[f->a % len] = (uint8_t)f->b; }
	else if (!strcmp(k, "trunc")) { len = len ? (size_t)f->a % len : 0; }
	else if (!strcmp(k, "trunc1")) { if (len) len--; }
	else if (!strcmp(k, "extend")) { size_t add = 1 + (size_t)f->a % 8; memset(p + len, (int)f->b, add); len += add; }
	else if (!strcmp(k, "extlong")) { size_t add = 200 + (size_t)f->a % 300; if (len + add > 1400) add = 1400 > len ? 1400 - len : 0; memset(p + len, (int)(f->b | 1), add); len += add; }
	else if (!strcmp(k, "prefix0")) { size_t add = 1 + (size_t)f->a % 4; memmove(p + add, p, len); memset(p, 0, add); len += add; }
	else if (!strcmp(k, "strip0")) { size_t z = 0; while (z < len && p[z] == 0) z++; if (z) { memmove(p, p + z, len - z); len -= z; } }	/* the shortest encoding of the same integer */
	else if (!strcmp(k, "zero")) { memset(p, 0, len); }
	else if (!strcmp(k, "tag")) { if (len) p[0] = (uint8_t)f->a; }
	else if (!strcmp(k, "empty")) { len = 0; }
	else if (!strcmp(k, "hashmsg")) { uint8_t h_[RLC_MD_LEN]; md_map(h_, p, len); memcpy(p, h_, RLC_MD_LEN); len = RLC_MD_LEN; }	/* the bytes replaced by their own digest */
	return len;
}

/*============================================================================*/
/* Transmission of typed values: encode -> (Byzantine substitution) -> wire fault -> decode       */
/*============================================================================*/

static const char *fk(const fault_t *f) { return f ? f->kind : "none"; }

/* Integers travel as big-endian byte strings (minimal length, or fixed width w if w > 0). */
/* input bytes of verifiers and decryptors are handed over in a heap block of exactly their length (eight blocks in
 * rotation): a read beyond - or before - the stated length is a read outside the block */
static uint8_t *ex_pool[8];
static int ex_next = 0;
static const uint8_t *ex_copy(const uint8_t *p, size_t n) {
	free(ex_pool[ex_next]);
	uint8_t *b = (uint8_t *)malloc(n ? n : 1);
	if (n) memcpy(b, p, n);
	ex_pool[ex_next] = b;
	ex_next = (ex_next + 1) % 8;
	return n ? b : b + 1;
}
#define EX(P, N) ex_copy((P), (N))

static int xmit_bn(sess_t *s, const char *field, bn_t dst, const bn_t src, size_t w) {
	fault_t *f = find_fault(s, field);
	bn_t t;
	int ok = 1;
	bn_null(t);
	bn_new(t);
	bn_copy(t, src);
	size_t l0 = bn_size_bin(src);
	if (w > l0) l0 = w;
	bn_write_bin(wire2, l0, src);
	if (f) {
		/* value-level substitutions by a dishonest sender */
		if (!strcmp(f->kind, "v_zero")) bn_zero(t);
		else if (!strcmp(f->kind, "v_one")) bn_set_dig(t, 1);
		else if (!strcmp(f->kind, "v_ord")) bn_copy(t, ord);
		else if (!strcmp(f->kind, "v_addord")) bn_add(t, t, ord);
		else if (!strcmp(f->kind, "v_negmod")) { bn_sub(t, ord, t); }
		else if (!strcmp(f->kind, "v_inc")) bn_add_dig(t, t, 1);
		else if (!strcmp(f->kind, "v_neg")) bn_neg(t, t);
		else if (!strcmp(f->kind, "v_rand")) bn_rand_mod(t, ord);
		else if (!strcmp(f->kind, "v_big")) { bn_lsh(t, t, 64 + (uint_t)(f->a % 700)); bn_add_dig(t, t, 1); }
	}
	size_t l = bn_size_bin(t);
	if (w > l) l = w;
	bn_write_bin(wire, l, t);
	int neg = bn_sign(t) == RLC_NEG;
	if (f) l = wire_fault(wire, l, f);
	tr_printf("MSG %d %s bn kind=%s orig=", s->sid, field, fk(f));
	tr_hex(wire2, l0);
	tr_str(" sent=");
	tr_hex(wire, l);
	RLC_TRY {
		bn_read_bin(dst, wire, l);
		if (neg) bn_neg(dst, dst);
	} RLC_CATCH_ANY {
		ok = 0;
	}
	if (err_get_code() != RLC_OK) ok = 0;
	tr_printf(" dec=%s", ok ? "ok" : "err");
	if (ok) log_bn_kv("val", dst);
	tr_str("\n");
	bn_free(t);
	return ok;
}

/* Off-curve / wrong-subgroup / identity substitutions for points are built by the sender. */
static int xmit_ec(sess_t *s, const char *field, ec_t dst, const ec_t src, int pack) {
	fault_t *f = find_fault(s, field);
	ec_t t;
	int ok = 1;
	ec_null(t);
	ec_new(t);
	ec_copy(t, src);
	size_t l0 = ec_size_bin(src, pack);
	ec_write_bin(wire2, l0, src, pack);
	if (f) {
		if (!strcmp(f->kind, "v_inf")) ec_set_infty(t);
		else if (!strcmp(f->kind, "v_gen")) ec_curve_get_gen(t);
		else if (!strcmp(f->kind, "v_neg")) ec_neg(t, t);
		else if (!strcmp(f->kind, "v_dbl")) { ec_dbl(t, t); ec_norm(t, t); }
		else if (!strcmp(f->kind, "v_rand")) ec_rand(t);
	}
	size_t l = ec_size_bin(t, pack);
	ec_write_bin(wire, l, t, pack);
	if (f && !strcmp(f->kind, "v_offcurve") && l > 2) {
		/* keep x, move y by one: off the curve with certainty for an uncompressed point */
		wire[l - 1] ^= 1;
	}
	if (f) l = wire_fault(wire, l, f);
	tr_printf("MSG %d %s ec kind=%s orig=", s->sid, field, fk(f));
	tr_hex(wire2, l0);
	{
		size_t lo = ec_size_bin(src, 0);
		ec_write_bin(wire2, lo, src, 0);
		tr_str(" oval=");
		tr_hex(wire2, lo);
	}
	tr_str(" sent=");
	tr_hex(wire, l);
	RLC_TRY {
		ec_read_bin(dst, wire, l);
	} RLC_CATCH_ANY {
		ok = 0;
	}
	if (err_get_code() != RLC_OK) ok = 0;
	tr_printf(" dec=%s", ok ? "ok" : "err");
	if (ok) {
		size_t l2 = ec_size_bin(dst, 0);
		ec_write_bin(wire2, l2, dst, 0);
		tr_str(" val=");
		tr_hex(wire2, l2);
	}
	tr_str("\n");
	ec_free(t);
	return ok;
}

/* A public key delivered as raw affine coordinates x | y (fixed width, as in key containers that store the
 * coordinates separately): the decoder checks length and range only, so whether the point is on the curve
 * is left to the verifier - which the property requires to check it. */
static int xmit_ec_raw(sess_t *s, const char *field, ec_t dst, const ec_t src) {
	fault_t *f = find_fault(s, field);
	ec_t t;
	int ok = 1;
	size_t l = 2 * RLC_FP_BYTES, lo;
	ec_null(t);
	ec_new(t);
	ec_norm(t, src);
	fp_write_bin(wire, RLC_FP_BYTES, t->x);
	fp_write_bin(wire + RLC_FP_BYTES, RLC_FP_BYTES, t->y);
	memcpy(wire2, wire, l);
	if (f && !strcmp(f->kind, "v_offcurve")) wire[l - 1] ^= 1;
	else if (f && !strcmp(f->kind, "v_neg")) { ec_neg(t, t); fp_write_bin(wire + RLC_FP_BYTES, RLC_FP_BYTES, t->y); }
	else if (f && !strcmp(f->kind, "v_dbl")) { ec_dbl(t, t); ec_norm(t, t); fp_write_bin(wire, RLC_FP_BYTES, t->x); fp_write_bin(wire + RLC_FP_BYTES, RLC_FP_BYTES, t->y); }
	else if (f && !strcmp(f->kind, "v_gen")) { ec_curve_get_gen(t); fp_write_bin(wire, RLC_FP_BYTES, t->x); fp_write_bin(wire + RLC_FP_BYTES, RLC_FP_BYTES, t->y); }
	else if (f && !strcmp(f->kind, "v_rand")) { ec_rand(t); fp_write_bin(wire, RLC_FP_BYTES, t->x); fp_write_bin(wire + RLC_FP_BYTES, RLC_FP_BYTES, t->y); }
	else if (f && strcmp(f->kind, "v_inf")) l = wire_fault(wire, l, f);
	tr_printf("MSG %d %s ec kind=%s orig=", s->sid, field, fk(f));
	tr_hex(wire2, 2 * RLC_FP_BYTES);
	lo = ec_size_bin(src, 0);
	ec_write_bin(wire2, lo, src, 0);
	tr_str(" oval=");
	tr_hex(wire2, lo);
	tr_str(" sent=");
	tr_hex(wire, l);
	if (l != 2 * RLC_FP_BYTES) ok = 0;
	else {
		RLC_TRY {
			fp_read_bin(dst->x, wire, RLC_FP_BYTES);
			fp_read_bin(dst->y, wire + RLC_FP_BYTES, RLC_FP_BYTES);
			fp_set_dig(dst->z, 1);
			dst->coord = BASIC;
		} RLC_CATCH_ANY {
			ok = 0;
		}
		if (err_get_code() != RLC_OK) ok = 0;
	}
	tr_printf(" dec=%s", ok ? "ok" : "err");
	if (ok) {
		wire2[0] = 4;
		memcpy(wire2 + 1, wire, l);
		tr_str(" val=");
		tr_hex(wire2, l + 1);
	}
	tr_str("\n");
	ec_free(t);
	return ok;
}

static int xmit_g1(sess_t *s, const char *field, g1_t dst, const g1_t src, int pack) {
	fault_t *f = find_fault(s, field);
	g1_t t;
	int ok = 1;
	g1_null(t);
	g1_new(t);
	g1_copy(t, src);
	size_t l0 = g1_size_bin(src, pack);
	g1_write_bin(wire2, l0, src, pack);
	if (f) {
		if (!strcmp(f->kind, "v_inf")) g1_set_infty(t);
		else if (!strcmp(f->kind, "v_gen")) g1_get_gen(t);
		else if (!strcmp(f->kind, "v_neg")) g1_neg(t, t);
		else if (!strcmp(f->kind, "v_dbl")) { g1_dbl(t, t); g1_norm(t, t); }
		else if (!strcmp(f->kind, "v_rand")) g1_rand(t);
	}
	size_t l = g1_size_bin(t, pack);
	g1_write_bin(wire, l, t, pack);
	if (f && !strcmp(f->kind, "v_offcurve") && l > 2) wire[l - 1] ^= 1;
	if (f) l = wire_fault(wire, l, f);
	tr_printf("MSG %d %s g1 kind=%s orig=", s->sid, field, fk(f));
	tr_hex(wire2, l0);
	{
		size_t lo = g1_size_bin(src, 0);
		g1_write_bin(wire2, lo, src, 0);
		tr_str(" oval=");
		tr_hex(wire2, lo);
	}
	tr_str(" sent=");
	tr_hex(wire, l);
	RLC_TRY {
		g1_read_bin(dst, wire, l);
	} RLC_CATCH_ANY {
		ok = 0;
	}
	if (err_get_code() != RLC_OK) ok = 0;
	tr_printf(" dec=%s", ok ? "ok" : "err");
	if (ok) {
		size_t l2 = g1_size_bin(dst, 0);
		g1_write_bin(wire2, l2, dst, 0);
		tr_str(" val=");
		tr_hex(wire2, l2);
	}
	tr_str("\n");
	g1_free(t);
	return ok;
}

static int xmit_g2(sess_t *s, const char *field, g2_t dst, const g2_t src, int pack) {
	fault_t *f = find_fault(s, field);
	g2_t t;
	int ok = 1;
	g2_null(t);
	g2_new(t);
	g2_copy(t, src);
	size_t l0 = g2_size_bin(src, pack);
	g2_write_bin(wire2, l0, src, pack);
	if (f) {
		if (!strcmp(f->kind, "v_inf")) g2_set_infty(t);
		else if (!strcmp(f->kind, "v_gen")) g2_get_gen(t);
		else if (!strcmp(f->kind, "v_neg")) g2_neg(t, t);
		else if (!strcmp(f->kind, "v_dbl")) { g2_dbl(t, t); g2_norm(t, t); }
		else if (!strcmp(f->kind, "v_rand")) g2_rand(t);
		else if (!strcmp(f->kind, "v_nosub")) {
			/* on the twist but outside the order-r subgroup: a random twist point without
			 * cofactor clearing (found by decompressing successive x until one decodes) */
			uint8_t c[2 * RLC_FP_BYTES + 1];
			rand_bytes(c, sizeof(c));
			c[0] = 2;
			c[1] &= 0x0F;
			c[1 + RLC_FP_BYTES] &= 0x0F;
			for (int tries = 0; tries < 64; tries++) {
				int good = 1;
				RLC_TRY {
					g2_read_bin(t, c, sizeof(c));
				} RLC_CATCH_ANY {
					good = 0;
				}
				if (err_get_code() != RLC_OK) good = 0;
				if (good && !g2_is_infty(t)) break;
				c[2 * RLC_FP_BYTES]++;
			}
		}
	}
	size_t l = g2_size_bin(t, pack);
	g2_write_bin(wire, l, t, pack);
	if (f && !strcmp(f->kind, "v_offcurve") && l > 2) wire[l - 1] ^= 1;
	if (f) l = wire_fault(wire, l, f);
	tr_printf("MSG %d %s g2 kind=%s orig=", s->sid, field, fk(f));
	tr_hex(wire2, l0);
	{
		size_t lo = g2_size_bin(src, 0);
		g2_write_bin(wire2, lo, src, 0);
		tr_str(" oval=");
		tr_hex(wire2, lo);
	}
	tr_str(" sent=");
	tr_hex(wire, l);
	RLC_TRY {
		g2_read_bin(dst, wire, l);
	} RLC_CATCH_ANY {
		ok = 0;
	}
	if (err_get_code() != RLC_OK) ok = 0;
	tr_printf(" dec=%s", ok ? "ok" : "err");
	if (ok) {
		size_t l2 = g2_size_bin(dst, 0);
		g2_write_bin(wire2, l2, dst, 0);
		tr_str(" val=");
		tr_hex(wire2, l2);
		if (f && !strcmp(f->kind, "v_nosub")) tr_printf(" insub=%d", g2_is_valid(dst));
	}
	tr_str("\n");
	g2_free(t);
	return ok;
}

static int xmit_gt(sess_t *s, const char *field, gt_t dst, const gt_t src, int pack) {
	fault_t *f = find_fault(s, field);
	gt_t t;
	int ok = 1;
	gt_null(t);
	gt_new(t);
	gt_copy(t, src);
	size_t l0 = gt_size_bin(t, pack);
	gt_write_bin(wire2, l0, t, pack);
	if (f) {
		if (!strcmp(f->kind, "v_one")) gt_set_unity(t);
		else if (!strcmp(f->kind, "v_gen")) gt_get_gen(t);
		else if (!strcmp(f->kind, "v_rand")) gt_rand(t);
		else if (!strcmp(f->kind, "v_inv")) gt_inv(t, t);
		else if (!strcmp(f->kind, "v_sqr")) gt_sqr(t, t);
		else if (!strcmp(f->kind, "v_negfp")) fp12_neg(t, t);		/* times the element of order 2: outside the order-r subgroup */
	}
	size_t l = gt_size_bin(t, pack);
	gt_write_bin(wire, l, t, pack);
	if (f) l = wire_fault(wire, l, f);
	tr_printf("MSG %d %s gt kind=%s orig=", s->sid, field, fk(f));
	tr_hex(wire2, l0);
	tr_str(" sent=");
	tr_hex(wire, l);
	int same = (l == l0 && memcmp(wire, wire2, l) == 0);
	RLC_TRY {
		gt_read_bin(dst, wire, l);
	} RLC_CATCH_ANY {
		ok = 0;
	}
	if (err_get_code() != RLC_OK) ok = 0;
	tr_printf(" dec=%s same=%d", ok ? "ok" : "err", ok ? (gt_cmp(dst, src) == RLC_EQ) : 0);
	(void)same;
	tr_str("\n");
	gt_free(t);
	return ok;
}

/* Byte strings (messages, ciphertexts, tags): only wire faults apply. */
static size_t xmit_bytes(sess_t *s, const char *field, uint8_t *dst, const uint8_t *src, size_t len) {
	fault_t *f = find_fault(s, field);
	memcpy(dst, src, len);
	size_t l = len;
	if (f) l = wire_fault(dst, l, f);
	tr_printf("MSG %d %s bytes kind=%s orig=", s->sid, field, fk(f));
	tr_hex(src, len);
	tr_str(" sent=");
	tr_hex(dst, l);
	tr_str(" dec=ok\n");
	return l;
}

/*============================================================================*/
/* Parameters                                                                 */
/*============================================================================*/

static void print_params(void) {
	bn_t p;
	ec_t g;
	bn_null(p); bn_new(p);
	ec_null(g); ec_new(g);
	p->used = RLC_FP_DIGS;
	dv_copy(p->dp, fp_prime_get(), RLC_FP_DIGS);
	bn_trim(p);
	tr_str("PARAM");
	log_bn_kv("p", p);
	log_fp_kv("a", ep_curve_get_a());
	log_fp_kv("b", ep_curve_get_b());
	ep_curve_get_ord(ord);
	log_bn_kv("n", ord);
	ep_curve_get_cof(p);
	log_bn_kv("h", p);
	ec_curve_get_gen(g);
	log_fp_kv("gx", g->x);
	log_fp_kv("gy", g->y);
	tr_printf(" fpbytes=%d pc=%d level=%d\n", RLC_FP_BYTES, has_pc, ec_param_level());
	bn_free(p);
	ec_free(g);
}

static int set_curve(const char *name) {
	int id = -1, pc = 0;
	if (!strcmp(name, "NIST_P256")) id = NIST_P256;
	else if (!strcmp(name, "BSI_P256")) id = BSI_P256;
	else if (!strcmp(name, "SM2_P256")) id = SM2_P256;
	else if (!strcmp(name, "SECG_K256")) id = SECG_K256;
	else if (!strcmp(name, "SM9_P256")) id = SM9_P256;
	else if (!strcmp(name, "BN_P256")) { id = BN_P256; pc = 1; }
#if FP_PRIME == 381
	else if (!strcmp(name, "B12_P381")) { id = B12_P381; pc = 1; }
#endif
	if (id < 0) return -1;
	if (id != cur_curve) {
		if (pc) { if (pc_param_set_any() != RLC_OK) return -2; }
		else ep_param_set(id);
		cur_curve = id;
		has_pc = pc;
	}
	(void)err_get_code();
	return 0;
}

static long opt_of(char **tok, int n, const char *k, long d) { return tok_kv_long(tok, n, k, d); }

/*============================================================================*/
/* Schemes.  b[]/e[]/g1[]/... indices are local conventions of each scheme.   */
/* Convention: objects 0..  belong to the sender side, 12.. / 5.. to the      */
/* receiver side (what was decoded from the wire).                             */
/*============================================================================*/

/* ---- ECDSA: opt[0]=hash mode (0 hash-then-sign, 1 pre-hashed), opt[1]=pack ---- */
static int sch_ecdsa(sess_t *s) {
	switch (s->phase) {
		case 0:
			log_rc(s, "gen", cp_ecdsa_gen(s->b[0], s->e[0]));
			tr_printf("KEY %d ecdsa", s->sid); log_bn_kv("d", s->b[0]); tr_str("\n");
			return 1;
		case 1: {
			int rc = cp_ecdsa_sig(s->b[1], s->b[2], s->msg, s->msg_len, (int)s->opt[0], s->b[0]);
			log_rc(s, "sig", rc);
			fault_t *f = find_fault(s, "forge");
			if (f && !strcmp(f->kind, "v_forgeinf")) {
				/* a signature that verifies under the identity as public key: s = 1, r = x(eG) */
				uint8_t h[RLC_MD_LEN];
				const uint8_t *m = s->msg;
				size_t len = s->msg_len;
				ec_t p;
				ec_null(p); ec_new(p);
				if (!s->opt[0]) { md_map(h, m, len); m = h; len = RLC_MD_LEN; }
				if (8 * len > bn_bits(ord)) {
					len = RLC_CEIL(bn_bits(ord), 8);
					bn_read_bin(s->b[3], m, len);
					bn_rsh(s->b[3], s->b[3], 8 * len - bn_bits(ord));
				} else {
					bn_read_bin(s->b[3], m, len);
				}
				bn_mod(s->b[3], s->b[3], ord);
				if (!bn_is_zero(s->b[3])) {
					ec_mul_gen(p, s->b[3]);
					ec_get_x(s->b[1], p);
					bn_mod(s->b[1], s->b[1], ord);
					bn_set_dig(s->b[2], 1);
					ec_set_infty(s->e[0]);
					tr_printf("NOTE %d forged-for-identity-key\n", s->sid);
				}
				ec_free(p);
			}
			if (f && !strcmp(f->kind, "v_forgelargex") && rc == RLC_OK) {
				/* a *valid* triple whose point R = u1 G + u2 Q has an x-coordinate in [n, p), so that r = x - n:
				 * choose R with such an x, any s, and derive the key Q = r^-1 (s R - e G).  A verifier that
				 * compares x(R) with r without reducing it modulo n rejects it. */
				uint8_t h[RLC_MD_LEN];
				const uint8_t *m = s->msg;
				size_t len = s->msg_len;
				bn_t fp, x;
				ec_t R, T;
				bn_null(fp); bn_null(x); bn_new(fp); bn_new(x);
				ec_null(R); ec_null(T); ec_new(R); ec_new(T);
				fp->used = RLC_FP_DIGS; dv_copy(fp->dp, fp_prime_get(), RLC_FP_DIGS); bn_trim(fp);
				if (!s->opt[0]) { md_map(h, m, len); m = h; len = RLC_MD_LEN; }
				if (8 * len > bn_bits(ord)) {
					len = RLC_CEIL(bn_bits(ord), 8);
					bn_read_bin(s->b[3], m, len);
					bn_rsh(s->b[3], s->b[3], 8 * len - bn_bits(ord));
				} else {
					bn_read_bin(s->b[3], m, len);
				}
				bn_mod(s->b[3], s->b[3], ord);
				int found = 0;
				if (bn_cmp(ord, fp) == RLC_LT) {
					bn_add_dig(x, ord, 1 + (dig_t)(f->a % 5000));
					for (int i = 0; i < 64 && !found && bn_cmp(x, fp) == RLC_LT; i++, bn_add_dig(x, x, 1)) {
						/* decompress (x, parity): succeeds iff x^3 + a x + b is a square */
						fp_prime_conv(T->x, x);
						fp_zero(T->y); fp_set_bit(T->y, 0, (int)(f->b & 1));
						fp_set_dig(T->z, 1);
						T->coord = BASIC;
						if (ec_upk(R, T) && ec_on_curve(R)) found = 1;
					}
					if (found) bn_sub_dig(x, x, 1);
				}
				if (found) {
					bn_sub(s->b[1], x, ord);							/* r = x - n, 0 < r < n */
					bn_rand_mod(s->b[2], ord);
					if (bn_is_zero(s->b[2])) bn_set_dig(s->b[2], 1);
					bn_mod_inv(x, s->b[1], ord);						/* r^-1 */
					bn_mul(fp, s->b[2], x); bn_mod(fp, fp, ord);		/* s r^-1 */
					ec_mul(T, R, fp);
					bn_mul(fp, s->b[3], x); bn_mod(fp, fp, ord);		/* e r^-1 */
					bn_sub(fp, ord, fp); bn_mod(fp, fp, ord);			/* - e r^-1 */
					ec_mul_gen(R, fp);
					ec_add(T, T, R);
					ec_norm(T, T);
					if (!ec_is_infty(T)) {
						ec_copy(s->e[0], T);
						tr_printf("NOTE %d valid-signature-with-large-x\n", s->sid);
					}
				}
				bn_free(fp); bn_free(x); ec_free(R); ec_free(T);
			}
			if (f && !strcmp(f->kind, "v_forgecmp") && rc == RLC_OK) {
				/* from an honest (e, r, s): r' = r with one bit flipped, s' = r' s / r, e' = e s' / s.  The verifier's
				 * point R is unchanged (u1 = e/s, u2 = r/s), so x(R) = r and the triple is invalid - it differs
				 * from a valid one in exactly one bit of r.  Pre-hashed mode (the digest is e'). */
				uint8_t h[RLC_MD_LEN];
				const uint8_t *m = s->msg;
				size_t len = s->msg_len, nb = bn_bits(ord);
				bn_t t, u;
				bn_null(t); bn_null(u); bn_new(t); bn_new(u);
				if (!s->opt[0]) { md_map(h, m, len); m = h; len = RLC_MD_LEN; }
				if (8 * len > nb) { len = RLC_CEIL(nb, 8); bn_read_bin(s->b[3], m, len); bn_rsh(s->b[3], s->b[3], 8 * len - nb); }
				else bn_read_bin(s->b[3], m, len);
				bn_mod(s->b[3], s->b[3], ord);						/* e */
				bn_copy(t, s->b[1]);								/* r */
				size_t bit = (size_t)f->a % (nb - 1);
				bn_set_bit(t, bit, !bn_get_bit(t, bit));			/* r' */
				if (!bn_is_zero(t) && bn_cmp(t, ord) == RLC_LT && !bn_is_zero(s->b[1]) && !bn_is_zero(s->b[3]) && nb % 8 == 0) {
					bn_mod_inv(u, s->b[1], ord);
					bn_mul(u, u, t); bn_mod(u, u, ord);				/* r'/r */
					bn_mul(s->b[2], s->b[2], u); bn_mod(s->b[2], s->b[2], ord);	/* s' = s r'/r */
					bn_mul(s->b[3], s->b[3], u); bn_mod(s->b[3], s->b[3], ord);	/* e' = e r'/r */
					bn_copy(s->b[1], t);
					s->opt[0] = 1;
					s->msg_len = nb / 8;
					bn_write_bin(s->msg, s->msg_len, s->b[3]);
					tr_printf("NOTE %d one-bit-of-r-off bit=%zu\n", s->sid, bit);
				}
				bn_free(t); bn_free(u);
			}
			if (f && !strcmp(f->kind, "v_forgeord2")) {
				/* a point of order two on another curve: Q' = (x0, 0) is off the curve; with the pre-hashed digest
				 * zero (u1 = 0) the verification equation only computes u2 Q', and (r, s) = (x0 mod n, r) gives
				 * u2 = 1.  Whoever skips the on-curve check accepts. */
				ec_norm(s->e[0], s->e[0]);
				fp_prime_back(s->b[1], s->e[0]->x);
				bn_mod(s->b[1], s->b[1], ord);
				if (!bn_is_zero(s->b[1])) {
					bn_copy(s->b[2], s->b[1]);
					fp_zero(s->e[0]->y);
					fp_set_dig(s->e[0]->z, 1);
					s->e[0]->coord = BASIC;
					s->opt[0] = 1;
					s->opt[6] = 1;
					s->msg_len = RLC_MD_LEN;
					memset(s->msg, 0, s->msg_len);
					tr_printf("NOTE %d forged-for-order-two-key\n", s->sid);
				}
			}
			return 1;
		}
		case 2: {
			int ok = 1;
			/* opt cls = 1: the key travels as raw coordinates */
			if (s->opt[6] && !ec_is_infty(s->e[0])) ok &= xmit_ec_raw(s, "pk", s->e[5], s->e[0]);
			else ok &= xmit_ec(s, "pk", s->e[5], s->e[0], (int)s->opt[1]);
			ok &= xmit_bn(s, "r", s->b[12], s->b[1], 0);
			ok &= xmit_bn(s, "s", s->b[13], s->b[2], 0);
			s->blen[0] = xmit_bytes(s, "msg", s->buf[0], s->msg, s->msg_len);
			s->flag[0] = ok;
			return 1;
		}
		case 3:
			if (s->flag[0]) {
				log_ver(s, "ver", cp_ecdsa_ver(s->b[12], s->b[13], EX(s->buf[0], s->blen[0]), s->blen[0], (int)s->opt[0], s->e[5]) == 1);
				/* duplicate delivery: verification is idempotent */
				if (s->opt[2]) log_ver(s, "ver-dup", cp_ecdsa_ver(s->b[12], s->b[13], EX(s->buf[0], s->blen[0]), s->blen[0], (int)s->opt[0], s->e[5]) == 1);
			} else {
				tr_printf("VER %d ver decode-failed\n", s->sid);
			}
			return 0;
	}
	return 0;
}

/* ---- EC-Schnorr ---- */
static int sch_ecss(sess_t *s) {
	switch (s->phase) {
		case 0: log_rc(s, "gen", cp_ecss_gen(s->b[0], s->e[0])); return 1;
		case 1: {
			log_rc(s, "sig", cp_ecss_sig(s->b[1], s->b[2], s->msg, s->msg_len, s->b[0]));
			fault_t *f = find_fault(s, "forge");
			if (f && !strcmp(f->kind, "v_forgeinf")) {
				/* a signature that needs no key: under the identity as public key R = sG, so any s with
				 * e = H(msg | x(sG) mod n) satisfies the verification equation */
				uint8_t h[RLC_MD_LEN], *mm = (uint8_t *)malloc(s->msg_len + RLC_FC_BYTES);
				ec_t p;
				ec_null(p); ec_new(p);
				bn_rand_mod(s->b[2], ord);
				if (bn_is_zero(s->b[2])) bn_set_dig(s->b[2], 1);
				ec_mul_gen(p, s->b[2]);
				ec_get_x(s->b[3], p);
				bn_mod(s->b[3], s->b[3], ord);
				memcpy(mm, s->msg, s->msg_len);
				bn_write_bin(mm + s->msg_len, RLC_FC_BYTES, s->b[3]);
				md_map(h, mm, s->msg_len + RLC_FC_BYTES);
				if (8 * RLC_MD_LEN > bn_bits(ord)) {
					size_t l = RLC_CEIL(bn_bits(ord), 8);
					bn_read_bin(s->b[1], h, l);
					bn_rsh(s->b[1], s->b[1], 8 * RLC_MD_LEN - bn_bits(ord));
				} else {
					bn_read_bin(s->b[1], h, RLC_MD_LEN);
				}
				bn_mod(s->b[1], s->b[1], ord);
				ec_set_infty(s->e[0]);
				tr_printf("NOTE %d forged-for-identity-key\n", s->sid);
				ec_free(p);
				free(mm);
			}
			return 1;
		}
		case 2: {
			int ok = 1;
			ok &= xmit_ec(s, "pk", s->e[5], s->e[0], (int)s->opt[1]);
			ok &= xmit_bn(s, "e", s->b[12], s->b[1], 0);
			ok &= xmit_bn(s, "s", s->b[13], s->b[2], 0);
			s->blen[0] = xmit_bytes(s, "msg", s->buf[0], s->msg, s->msg_len);
			s->flag[0] = ok;
			return 1;
		}
		case 3:
			if (s->flag[0]) log_ver(s, "ver", cp_ecss_ver(s->b[12], s->b[13], EX(s->buf[0], s->blen[0]), s->blen[0], s->e[5]) == 1);
			else tr_printf("VER %d ver decode-failed\n", s->sid);
			return 0;
	}
	return 0;
}

/* ---- RSA signature: opt[0]=hash mode ---- */
/* A dishonest holder of the private key (signature) or a sender that builds its own encoding (encryption)
 * produces a value whose *encoded message* differs from a well-formed one in one bit: out = (EM ^ bit)^x mod n,
 * where EM = in^y mod n.  Bits are biased to the places an encoding check looks at: the leading bits, the hash
 * field and its last byte, the trailer. */
static size_t rsa_encflip(uint8_t *out, const uint8_t *in, size_t in_len, const bn_t open_exp, const bn_t close_exp, fault_t *f) {
	bn_t m, t;
	const bn_st *n = rsa_pub->crt->n;
	size_t nbits = bn_bits(n), k = RLC_CEIL(nbits, 8), bit;
	bn_null(m); bn_null(t);
	bn_new(m); bn_new(t);
	bn_read_bin(t, in, in_len);
	bn_mxp(m, t, open_exp, n);
	switch (f->b % 6) {
		case 0: bit = (size_t)f->a % (nbits - 1); break;
		case 1: bit = nbits - 1 - ((size_t)f->a % 10); break;
		case 2: bit = 8 * (1 + ((size_t)f->a % 33)) + (((size_t)f->a / 64) % 8); break;
		case 3: bit = 8 + ((size_t)f->a % 8); break;
		case 4: bit = (size_t)f->a % 8; break;
		default: bit = 8 * (k - 1 - ((size_t)f->a % 40)) + (((size_t)f->a / 64) % 8); break;
	}
	if (bit >= nbits) bit = nbits - 2;
	if (f->b % 12 == 10) {
		/* the byte after the leading zero byte becomes 0xFF (bit 0 cleared here, set by the flip below) */
		bit = 8 * (k - 2);
		for (size_t j = 1; j < 8; j++) bn_set_bit(m, bit + j, 1);
		bn_set_bit(m, bit, 0);
		for (size_t j = 8 * (k - 1); j < nbits; j++) bn_set_bit(m, j, 0);
	}
	if (f->b % 12 == 11) {
		/* a whole byte among the first fourteen set to zero: an early separator / a short padding string
		 * (bits 1..7 cleared and bit 0 set here; the flip below clears bit 0) */
		bit = 8 * (k - 1 - (2 + (size_t)f->a % 12));
		for (size_t j = 1; j < 8; j++) bn_set_bit(m, bit + j, 0);
		bn_set_bit(m, bit, 1);
	}
	bn_set_bit(m, bit, !bn_get_bit(m, bit));
	if (bn_cmp(m, n) != RLC_LT) {
		bn_set_bit(m, bit, !bn_get_bit(m, bit));
		bit = 8 + ((size_t)f->a % 8);
		bn_set_bit(m, bit, !bn_get_bit(m, bit));
	}
	bn_mxp(t, m, close_exp, n);
	bn_write_bin(out, k, t);
	tr_printf("NOTE %d encoding-bit-flipped bit=%zu of=%zu\n", s_cur_sid, bit, nbits);
	bn_free(m); bn_free(t);
	return k;
}

static int sch_rsasig(sess_t *s) {
	switch (s->phase) {
		case 0: {
			s->blen[0] = BUFSZ;
			int rc = cp_rsa_sig(s->buf[0], &s->blen[0], s->msg, s->msg_len, (int)s->opt[0], rsa_prv);
			log_rc(s, "sig", rc);
			s->flag[0] = rc == RLC_OK;
			(void)err_get_code();
			return 1;
		}
		case 1: {
			if (!s->flag[0]) { s->blen[1] = 0; return 1; }
			/* the signature travels as an integer representative so that value-level
			 * substitutions (sig + N, zero prefix) can be expressed */
			fault_t *f = find_fault(s, "sig");
			memcpy(s->buf[1], s->buf[0], s->blen[0]);
			s->blen[1] = s->blen[0];
			if (f && !strcmp(f->kind, "v_addmod")) {
				bn_read_bin(s->b[0], s->buf[0], s->blen[0]);
				bn_add(s->b[0], s->b[0], rsa_pub->crt->n);
				s->blen[1] = bn_size_bin(s->b[0]);
				bn_write_bin(s->buf[1], s->blen[1], s->b[0]);
				tr_printf("MSG %d sig bytes kind=v_addmod orig=", s->sid);
				tr_hex(s->buf[0], s->blen[0]); tr_str(" sent="); tr_hex(s->buf[1], s->blen[1]); tr_str(" dec=ok\n");
			} else if (f && !strcmp(f->kind, "v_encflip")) {
				s_cur_sid = s->sid;
				s->blen[1] = rsa_encflip(s->buf[1], s->buf[0], s->blen[0], rsa_pub->e, rsa_prv->d, f);
				tr_printf("MSG %d sig bytes kind=v_encflip orig=", s->sid);
				tr_hex(s->buf[0], s->blen[0]); tr_str(" sent="); tr_hex(s->buf[1], s->blen[1]); tr_str(" dec=ok\n");
			} else {
				s->blen[1] = xmit_bytes(s, "sig", s->buf[1], s->buf[0], s->blen[0]);
			}
			s->blen[2] = xmit_bytes(s, "msg", s->buf[2], s->msg, s->msg_len);
			return 1;
		}
		case 2:
			if (s->flag[0]) {
				log_ver(s, "ver", cp_rsa_ver(EX(s->buf[1], s->blen[1]), s->blen[1], EX(s->buf[2], s->blen[2]), s->blen[2], (int)s->opt[0], rsa_pub) == 1);
				(void)err_get_code();
			}
			return 0;
	}
	return 0;
}

/* ---- RSA encryption ---- */
static int sch_rsaenc(sess_t *s) {
	switch (s->phase) {
		case 0: {
			s->blen[0] = BUFSZ;
			int rc = cp_rsa_enc(s->buf[0], &s->blen[0], s->msg, s->msg_len, rsa_pub);
			log_rc(s, "enc", rc);
			s->flag[0] = rc == RLC_OK;
			(void)err_get_code();
			return 1;
		}
		case 1:
			if (s->flag[0]) {
				fault_t *f = find_fault(s, "ct");
				if (f && !strcmp(f->kind, "v_encflip")) {
					s_cur_sid = s->sid;
					s->blen[1] = rsa_encflip(s->buf[1], s->buf[0], s->blen[0], rsa_prv->d, rsa_pub->e, f);
					tr_printf("MSG %d ct bytes kind=v_encflip orig=", s->sid);
					tr_hex(s->buf[0], s->blen[0]); tr_str(" sent="); tr_hex(s->buf[1], s->blen[1]); tr_str(" dec=ok\n");
				} else {
					s->blen[1] = xmit_bytes(s, "ct", s->buf[1], s->buf[0], s->blen[0]);
				}
			}
			return 1;
		case 2:
			if (s->flag[0]) {
				s->blen[2] = BUFSZ;
				int rc = cp_rsa_dec(s->buf[2], &s->blen[2], EX(s->buf[1], s->blen[1]), s->blen[1], rsa_prv);
				log_rc(s, "dec", rc);
				(void)err_get_code();
				if (rc == RLC_OK) log_out(s, "pt", s->buf[2], s->blen[2]);
			}
			return 0;
	}
	return 0;
}

/* ---- ECDH / ECMQV ---- */
static int sch_ecdh(sess_t *s) {
	switch (s->phase) {
		case 0: log_rc(s, "genA", cp_ecdh_gen(s->b[0], s->e[0])); return 1;
		case 1: log_rc(s, "genB", cp_ecdh_gen(s->b[1], s->e[1])); return 1;
		case 2:
			tr_printf("KEY %d ecdh", s->sid); log_bn_kv("da", s->b[0]); log_bn_kv("db", s->b[1]); tr_str("\n");
			s->flag[0] = xmit_ec(s, "qa", s->e[5], s->e[0], (int)s->opt[1]);
			s->flag[1] = xmit_ec(s, "qb", s->e[6], s->e[1], (int)s->opt[1]);
			return 1;
		case 3:
			if (s->flag[1]) {
				memset(s->buf[0], 0, 64);
				int rc = cp_ecdh_key(s->buf[0], (size_t)s->opt[3], s->b[0], s->e[6]);
				log_rc(s, "keyA", rc);
				if (err_get_code() == RLC_OK && rc == RLC_OK) log_out(s, "keyA", s->buf[0], (size_t)s->opt[3]);
			}
			return 1;
		case 4:
			if (s->flag[0]) {
				memset(s->buf[1], 0, 64);
				int rc = cp_ecdh_key(s->buf[1], (size_t)s->opt[3], s->b[1], s->e[5]);
				log_rc(s, "keyB", rc);
				if (err_get_code() == RLC_OK && rc == RLC_OK) log_out(s, "keyB", s->buf[1], (size_t)s->opt[3]);
			}
			return 0;
	}
	return 0;
}

static int sch_ecmqv(sess_t *s) {
	switch (s->phase) {
		case 0:
			log_rc(s, "genA1", cp_ecmqv_gen(s->b[0], s->e[0]));
			log_rc(s, "genA2", cp_ecmqv_gen(s->b[1], s->e[1]));
			return 1;
		case 1:
			log_rc(s, "genB1", cp_ecmqv_gen(s->b[2], s->e[2]));
			log_rc(s, "genB2", cp_ecmqv_gen(s->b[3], s->e[3]));
			return 1;
		case 2:
			tr_printf("KEY %d ecmqv", s->sid);
			log_bn_kv("a1", s->b[0]); log_bn_kv("a2", s->b[1]); log_bn_kv("b1", s->b[2]); log_bn_kv("b2", s->b[3]);
			tr_str("\n");
			s->flag[0] = xmit_ec(s, "qa1", s->e[5], s->e[0], (int)s->opt[1]) & xmit_ec(s, "qa2", s->e[6], s->e[1], (int)s->opt[1]);
			s->flag[1] = xmit_ec(s, "qb1", s->e[7], s->e[2], (int)s->opt[1]) & xmit_ec(s, "qb2", s->e[8], s->e[3], (int)s->opt[1]);
			return 1;
		case 3:
			if (s->flag[1]) {
				int rc = cp_ecmqv_key(s->buf[0], (size_t)s->opt[3], s->b[0], s->b[1], s->e[1], s->e[7], s->e[8]);
				log_rc(s, "keyA", rc);
				if (err_get_code() == RLC_OK && rc == RLC_OK) log_out(s, "keyA", s->buf[0], (size_t)s->opt[3]);
			}
			return 1;
		case 4:
			if (s->flag[0]) {
				int rc = cp_ecmqv_key(s->buf[1], (size_t)s->opt[3], s->b[2], s->b[3], s->e[3], s->e[5], s->e[6]);
				log_rc(s, "keyB", rc);
				if (err_get_code() == RLC_OK && rc == RLC_OK) log_out(s, "keyB", s->buf[1], (size_t)s->opt[3]);
			}
			return 0;
	}
	return 0;
}

/* ---- ECIES ---- */
static int sch_ecies(sess_t *s) {
	switch (s->phase) {
		case 0: log_rc(s, "gen", cp_ecies_gen(s->b[0], s->e[0])); return 1;
		case 1: s->flag[0] = xmit_ec(s, "pk", s->e[5], s->e[0], (int)s->opt[1]); return 1;
		case 2:
			if (s->flag[0]) {
				s->blen[0] = BUFSZ;
				int rc = cp_ecies_enc(s->e[1], s->buf[0], &s->blen[0], s->msg, s->msg_len, s->e[5]);
				log_rc(s, "enc", rc);
				s->flag[1] = rc == RLC_OK && err_get_code() == RLC_OK;
				fault_t *f = find_fault(s, "forge");
				if (f && !strcmp(f->kind, "v_forgeinf") && s->flag[1]) {
					/* a ciphertext made without any key: ephemeral point = identity, so the receiver's shared
					 * point is the identity whatever its private key, and its x-coordinate (zero) is public */
					int size = RLC_CEIL(RLC_MAX(128, ec_param_level()), 8);
					uint8_t zx[1] = { 0 }, key[2 * 8 * (RLC_FC_BYTES + 1)], iv[RLC_BC_LEN] = { 0 };
					md_kdf(key, 2 * size, zx, 1);
					s->blen[0] = BUFSZ;
					if (bc_aes_cbc_enc(s->buf[0], &s->blen[0], s->msg, s->msg_len, key, size, iv) == RLC_OK) {
						md_hmac(s->buf[0] + s->blen[0], s->buf[0], s->blen[0], key + size, size);
						s->blen[0] += RLC_MD_LEN;
						ec_set_infty(s->e[1]);
						tr_printf("NOTE %d forged-with-identity-ephemeral\n", s->sid);
					}
				}
			}
			return 1;
		case 3:
			if (s->flag[0] && s->flag[1]) {
				s->flag[2] = xmit_ec(s, "R", s->e[6], s->e[1], (int)s->opt[1]);
				s->blen[1] = xmit_bytes(s, "ct", s->buf[1], s->buf[0], s->blen[0]);
			}
			return 1;
		case 4:
			if (s->flag[0] && s->flag[1]) {
				if (!s->flag[2]) { tr_printf("RC %d dec decode-failed\n", s->sid); return 0; }
				s->blen[2] = BUFSZ;
				/* exact-size heap copy of the ciphertext so that any over-read is visible */
				uint8_t *ct = (uint8_t *)malloc(s->blen[1] ? s->blen[1] : 1);
				memcpy(ct, s->buf[1], s->blen[1]);
				int rc;
				if (s->opt[2] == 1) {
					/* in place: the plaintext is written over the ciphertext (as the test suite itself calls it) */
					memcpy(s->buf[2], ct, s->blen[1]);
					tr_printf("NOTE %d decrypted-in-place\n", s->sid);
					rc = cp_ecies_dec(s->buf[2], &s->blen[2], s->e[6], s->buf[2], s->blen[1], s->b[0]);
				} else {
					rc = cp_ecies_dec(s->buf[2], &s->blen[2], s->e[6], ct, s->blen[1], s->b[0]);
				}
				free(ct);
				if (err_get_code() != RLC_OK) rc = RLC_ERR;
				log_rc(s, "dec", rc);
				if (rc == RLC_OK) log_out(s, "pt", s->buf[2], s->blen[2]);
			}
			return 0;
	}
	return 0;
}

/* ---- Paillier with an aggregator: opt[4] = number of senders (1..4) ---- */
static int sch_phpe(sess_t *s) {
	int k = (int)s->opt[4];
	if (s->phase < k) {
		/* sender i encrypts its plaintext b[i] into b[4 + i] */
		int i = s->phase;
		bn_rand_mod(s->b[i], ph_pub);
		if (s->opt[5] == 1) { bn_sub_dig(s->b[i], ph_pub, 1 + i); }		/* sums that wrap the modulus */
		if (s->opt[5] == 2) { bn_set_dig(s->b[i], i); }
		log_rc(s, "enc", cp_phpe_enc(s->b[4 + i], s->b[i], ph_pub));
		tr_printf("OUT %d pt%d", s->sid, i); log_bn_kv("v", s->b[i]); tr_str("\n");
		return 1;
	}
	if (s->phase == k) {
		/* the wire to the aggregator: ciphertexts may be dropped or duplicated */
		char name[8];
		bn_set_dig(s->b[20], 1);			/* running product = Enc(0) up to randomness: start with 1 */
		int n = 0;
		for (int i = 0; i < k; i++) {
			snprintf(name, sizeof(name), "c%d", i);
			fault_t *f = find_fault(s, name);
			int copies = 1;
			if (f && !strcmp(f->kind, "drop")) copies = 0;
			if (f && !strcmp(f->kind, "dup")) copies = 2;
			tr_printf("DELIVER %d %s copies=%d\n", s->sid, name, copies);
			for (int c = 0; c < copies; c++) {
				if (n == 0) bn_copy(s->b[20], s->b[4 + i]);
				else log_rc(s, "add", cp_phpe_add(s->b[20], s->b[20], s->b[4 + i], ph_pub));
				n++;
			}
		}
		s->flag[0] = n;
		return 1;
	}
	if (s->phase == k + 1) {
		if (s->flag[0] > 0) {
			int rc;
			/* opt dup: decrypt in place (plaintext and ciphertext the same integer) */
			if (s->opt[2]) { bn_copy(s->b[21], s->b[20]); rc = cp_phpe_dec(s->b[21], s->b[21], ph_prv); }
			else rc = cp_phpe_dec(s->b[21], s->b[20], ph_prv);
			log_rc(s, "dec", rc);
			if (rc == RLC_OK) log_out_bn(s, "sum", s->b[21]);
		}
		return 0;
	}
	return 0;
}

/* ---- Shamir: opt[4]=k, opt[5]=n; faults drop/dup/corrupt on share fields sh<i> ---- */
static int sch_sss(sess_t *s) {
	int k = (int)s->opt[4], n = (int)s->opt[5];
	switch (s->phase) {
		case 0: {
			bn_rand_mod(s->b[20], ord);
			if (s->opt[6] == 1) bn_zero(s->b[20]);
			if (s->opt[6] == 2) bn_sub_dig(s->b[20], ord, 1);
			log_out_bn(s, "secret", s->b[20]);
			int rc = mpc_sss_gen(s->b, s->b + 8, s->b[20], ord, (size_t)k, (size_t)n);
			log_rc(s, "gen", rc);
			s->flag[0] = rc == RLC_OK;
			return 1;
		}
		case 1: {
			/* shares travel to the collector in a plan-chosen order; some are lost */
			if (!s->flag[0]) return 0;
			int got = 0;
			char name[8];
			bn_t xs[8], ys[8];
			for (int i = 0; i < 8; i++) { bn_null(xs[i]); bn_null(ys[i]); bn_new(xs[i]); bn_new(ys[i]); }
			for (int j = 0; j < n && got < k; j++) {
				int i = (int)((j * (s->opt[7] | 1) + s->opt[7]) % n);	/* a permutation when gcd(step, n) = 1 */
				snprintf(name, sizeof(name), "sh%d", i);
				fault_t *f = find_fault(s, name);
				if (f && !strcmp(f->kind, "drop")) { tr_printf("DELIVER %d %s copies=0\n", s->sid, name); continue; }
				int dupx = 0;
				for (int q = 0; q < got; q++) { if (bn_cmp(xs[q], s->b[i]) == RLC_EQ) dupx = 1; }
				if (dupx) continue;
				bn_copy(xs[got], s->b[i]);
				if (!xmit_bn(s, name, ys[got], s->b[8 + i], 0)) continue;
				tr_printf("SHARE %d", s->sid); log_bn_kv("x", xs[got]); log_bn_kv("y", ys[got]); tr_str("\n");
				got++;
			}
			tr_printf("COLLECTED %d %d\n", s->sid, got);
			if (got >= k) {
				int rc = mpc_sss_key(s->b[21], (const bn_t *)xs, (const bn_t *)ys, ord, (size_t)k);
				log_rc(s, "key", rc);
				if (rc == RLC_OK) log_out_bn(s, "recovered", s->b[21]);
			}
			for (int i = 0; i < 8; i++) { bn_free(xs[i]); bn_free(ys[i]); }
			return 0;
		}
	}
	return 0;
}

/* ---- BLS: pk in G2, signature in G1 ---- */
static int sch_bls(sess_t *s) {
	switch (s->phase) {
		case 0: log_rc(s, "gen", cp_bls_gen(s->b[0], s->g2[0])); return 1;
		case 1: log_rc(s, "sig", cp_bls_sig(s->g1[0], s->msg, s->msg_len, s->b[0])); return 1;
		case 2: {
			int ok = 1;
			ok &= xmit_g2(s, "pk", s->g2[5], s->g2[0], (int)s->opt[1]);
			ok &= xmit_g1(s, "sig", s->g1[5], s->g1[0], (int)s->opt[1]);
			s->blen[0] = xmit_bytes(s, "msg", s->buf[0], s->msg, s->msg_len);
			s->flag[0] = ok;
			return 1;
		}
		case 3:
			if (s->flag[0]) log_ver(s, "ver", cp_bls_ver(s->g1[5], EX(s->buf[0], s->blen[0]), s->blen[0], s->g2[5]) == 1);
			else tr_printf("VER %d ver decode-failed\n", s->sid);
			return 0;
	}
	return 0;
}

typedef struct { const char *name; int (*fn)(sess_t *); int need_pc; int need_rsa; int need_ph; } scheme_t;

#include "protosim_extra.h"

static const scheme_t schemes[] = {
	{ "ecdsa", sch_ecdsa, 0, 0, 0 }, { "ecss", sch_ecss, 0, 0, 0 }, { "rsasig", sch_rsasig, 0, 1, 0 },
	{ "rsaenc", sch_rsaenc, 0, 1, 0 }, { "ecdh", sch_ecdh, 0, 0, 0 }, { "ecmqv", sch_ecmqv, 0, 0, 0 },
	{ "ecies", sch_ecies, 0, 0, 0 }, { "phpe", sch_phpe, 0, 0, 1 }, { "sss", sch_sss, 0, 0, 0 },
	{ "bls", sch_bls, 1, 0, 0 },
	EXTRA_SCHEMES
};
#define NSCHEMES ((int)(sizeof(schemes) / sizeof(schemes[0])))

/*============================================================================*/

static void engine_boot(void) {
	uint8_t seed[64];
	memset(seed, 0x42, sizeof(seed));
	sim_dev_reset(&sim_dev_main, seed, sizeof(seed), 21);
	if (core_init() != RLC_OK) _exit(4);
	bn_null(ord); bn_new(ord);
	for (int i = 0; i < NSESS; i++) {
		sess_t *s = &S[i];
		memset(s, 0, sizeof(*s));
		for (int j = 0; j < NBN; j++) { bn_null(s->b[j]); bn_new(s->b[j]); }
		for (int j = 0; j < NEC; j++) { ec_null(s->e[j]); ec_new(s->e[j]); }
		for (int j = 0; j < NG; j++) {
			g1_null(s->g1[j]); g1_new(s->g1[j]);
			g2_null(s->g2[j]); g2_new(s->g2[j]);
			gt_null(s->gt[j]); gt_new(s->gt[j]);
		}
	}
	rsa_null(rsa_pub); rsa_null(rsa_prv); rsa_new(rsa_pub); rsa_new(rsa_prv);
	bn_null(ph_pub); bn_new(ph_pub); phpe_null(ph_prv); phpe_new(ph_prv);
	extra_boot();
}

static void engine_run(void) {
	char *line, *tok[24];
	for (int i = 0; i < NSESS; i++) {
		/* every plan starts from the same object contents, so that a value a scheme never writes
		 * (an unused array slot) cannot carry over from an earlier plan in this executor */
		sess_t *s = &S[i];
		s->used = 0;
		for (int j = 0; j < NBN; j++) { bn_zero(s->b[j]); }
		if (cur_curve >= 0) {
			for (int j = 0; j < NEC; j++) { ec_set_infty(s->e[j]); }
			if (has_pc) {
				for (int j = 0; j < NG; j++) { g1_set_infty(s->g1[j]); g2_set_infty(s->g2[j]); gt_zero(s->gt[j]); }
			}
		}
		memset(s->buf, 0, sizeof(s->buf));
		memset(s->msg, 0, sizeof(s->msg));
	}
	have_rsa = have_ph = 0;
	(void)err_get_code();
	while ((line = plan_next_line()) != NULL) {
		int n = plan_split(line, tok, 24);
		if (n == 0) continue;
		if (!strcmp(tok[0], "ENTROPY")) {
			uint8_t e[256];
			long l = hex_decode(tok[1], e, sizeof(e));
			if (l <= 0) { e[0] = 1; l = 1; }
			sim_reseed_fresh(e, (size_t)l);
		} else if (!strcmp(tok[0], "CURVE")) {
			int r = set_curve(tok[1]);
			tr_printf("CURVE %s %d\n", tok[1], r);
			if (r == 0) print_params();
		} else if (!strcmp(tok[0], "RSAKEY")) {
			int rc = cp_rsa_gen(rsa_pub, rsa_prv, (size_t)atoi(tok[1]));
			have_rsa = rc == RLC_OK;
			tr_printf("KEY rsa rc=%d bits=%zu", rc == RLC_OK ? 0 : 1, have_rsa ? bn_bits(rsa_pub->crt->n) : 0);
			if (have_rsa) {
				log_bn_kv("n", rsa_pub->crt->n); log_bn_kv("e", rsa_pub->e); log_bn_kv("d", rsa_prv->d);
				log_bn_kv("p", rsa_prv->crt->p); log_bn_kv("q", rsa_prv->crt->q);
			}
			tr_str("\n");
		} else if (!strcmp(tok[0], "PHKEY")) {
			int rc = cp_phpe_gen(ph_pub, ph_prv, (size_t)atoi(tok[1]));
			have_ph = rc == RLC_OK;
			tr_printf("KEY phpe rc=%d", rc == RLC_OK ? 0 : 1);
			if (have_ph) log_bn_kv("n", ph_pub);
			tr_str("\n");
		} else if (!strcmp(tok[0], "SESSION") && n >= 3) {
			int sid = atoi(tok[1]) % NSESS;
			sess_t *s = &S[sid];
			const scheme_t *sc = NULL;
			for (int i = 0; i < NSCHEMES; i++) { if (!strcmp(schemes[i].name, tok[2])) sc = &schemes[i]; }
			s->used = 0;
			if (sc == NULL || cur_curve < 0 || (sc->need_pc && !has_pc) || (sc->need_rsa && !have_rsa) || (sc->need_ph && !have_ph)) {
				tr_printf("SESSION %d %s skipped\n", sid, tok[2]);
				continue;
			}
			s->used = 1; s->phase = 0; s->done = 0; s->sid = sid; s->nf = 0;
			snprintf(s->scheme, sizeof(s->scheme), "%s", tok[2]);
			memset(s->flag, 0, sizeof(s->flag));
			memset(s->blen, 0, sizeof(s->blen));
			s->opt[0] = opt_of(tok, n, "hash", 0);
			s->opt[1] = opt_of(tok, n, "pack", 0);
			s->opt[2] = opt_of(tok, n, "dup", 0);
			s->opt[3] = opt_of(tok, n, "klen", 32);
			s->opt[4] = opt_of(tok, n, "k", 2);
			s->opt[5] = opt_of(tok, n, "n", 3);
			s->opt[6] = opt_of(tok, n, "cls", 0);
			s->opt[7] = opt_of(tok, n, "ord", 1);
			s->msg_len = (size_t)opt_of(tok, n, "mlen", 10);
			if (s->msg_len > sizeof(s->msg)) s->msg_len = sizeof(s->msg);
			const char *mk = tok_kv(tok, n, "mkind");
			rand_bytes(s->msg, s->msg_len);
			if (mk && !strcmp(mk, "zeros")) memset(s->msg, 0, s->msg_len);
			if (mk && !strcmp(mk, "ff")) memset(s->msg, 0xFF, s->msg_len);
			if (mk && !strcmp(mk, "lead0") && s->msg_len) s->msg[0] = 0;
			tr_printf("SESSION %d %s msg=", sid, tok[2]);
			tr_hex(s->msg, s->msg_len);
			tr_printf(" hash=%ld pack=%ld dup=%ld klen=%ld k=%ld n=%ld cls=%ld ord=%ld mkind=%s\n", s->opt[0], s->opt[1], s->opt[2],
					s->opt[3], s->opt[4], s->opt[5], s->opt[6], s->opt[7], mk ? mk : "rand");
		} else if (!strcmp(tok[0], "FAULT") && n >= 6) {
			int sid = atoi(tok[1]) % NSESS;
			sess_t *s = &S[sid];
			if (!s->used || s->nf >= NFAULT) continue;
			fault_t *f = &s->f[s->nf++];
			snprintf(f->field, sizeof(f->field), "%s", tok[2]);
			snprintf(f->kind, sizeof(f->kind), "%s", tok[3]);
			f->a = strtol(tok[4], NULL, 10);
			f->b = strtol(tok[5], NULL, 10);
			f->used = 1;
		} else if (!strcmp(tok[0], "STEP")) {
			int sid = atoi(tok[1]) % NSESS;
			sess_t *s = &S[sid];
			if (!s->used || s->done) continue;
			const scheme_t *sc = NULL;
			for (int i = 0; i < NSCHEMES; i++) { if (!strcmp(schemes[i].name, s->scheme)) sc = &schemes[i]; }
			tr_printf("STEP %d %s %d\n", sid, s->scheme, s->phase);
			int more = 0, thrown = 0;
			/* Phases run OUTSIDE any protected block, as in an application that only looks at return
			 * values: an error inside a library call then sets the sticky code and the call returns
			 * its result, which is what the oracles must see (a verifier that returns "accepted" after
			 * an internal error is a soundness failure). */
			more = sc->fn(s);
			if (core_get()->last == &core_get()->error) { err_t e; char *m; err_get_msg(&e, &m); }
			int code = err_get_code() != RLC_OK;
			if (thrown) { tr_printf("THROWN %d %s %d\n", sid, s->scheme, s->phase); more = 0; }
			if (code) tr_printf("CODE %d %s %d\n", sid, s->scheme, s->phase);
			s->phase++;
			if (!more) { s->done = 1; tr_printf("DONE %d %s\n", sid, s->scheme); }
		}
	}
}
