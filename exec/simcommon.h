/*
 * Common executor runtime for the relic deterministic simulator.
 *
 * An executor is a pure interpreter of plan files: it draws no random numbers
 * of its own, reads no clock, and never puts an address into its transcript.
 * Protocol on stdin/stdout (binary safe):
 *     orchestrator -> executor:  "RUN <nbytes>\n" <plan bytes>
 *     executor -> orchestrator:  "DONE <nbytes>\n" <transcript bytes>
 * With a file name as argv[1] the executor runs that plan once and prints the
 * transcript (fresh-process replay).
 *
 * Seams provided here (link-time, no hook in relic):
 *   - simulated entropy device: __wrap_open/__wrap_read/__wrap_close
 *   - fault-injecting, garbage-filling allocator: __wrap_malloc/calloc/realloc/free
 *     (only linked into config D executors, -DSIM_WRAP_ALLOC)
 */
#ifndef SIMCOMMON_H
#define SIMCOMMON_H

#include <stdio.h>
#include <stdlib.h>
#include <string.h>
#include <stdint.h>
#include <stdarg.h>
#include <errno.h>
#include <fcntl.h>
#include <unistd.h>
#include <malloc.h>

#include "relic.h"

/*============================================================================*/
/* Transcript                                                                 */
/*============================================================================*/

#ifdef SIM_THREADS
#define SIM_TLS __thread
#else
#define SIM_TLS
#endif

static SIM_TLS char *tr_buf = NULL;
static SIM_TLS size_t tr_len = 0, tr_cap = 0;

/* The transcript buffer is allocated with the real allocator and is never
 * subject to fault injection. */
static void *sim_sys_realloc(void *p, size_t n);

static void tr_reserve(size_t extra) {
	if (tr_len + extra + 1 > tr_cap) {
		size_t ncap = tr_cap ? tr_cap * 2 : (1 << 16);
		while (ncap < tr_len + extra + 1) ncap *= 2;
		tr_buf = (char *)sim_sys_realloc(tr_buf, ncap);
		if (tr_buf == NULL) {
			_exit(3);
		}
		tr_cap = ncap;
	}
}

static void tr_printf(const char *fmt, ...) __attribute__((format(printf, 1, 2)));
static void tr_printf(const char *fmt, ...) {
	va_list ap;
	char tmp[512];
	va_start(ap, fmt);
	int n = vsnprintf(tmp, sizeof(tmp), fmt, ap);
	va_end(ap);
	if (n < 0) return;
	if ((size_t)n < sizeof(tmp)) {
		tr_reserve((size_t)n);
		memcpy(tr_buf + tr_len, tmp, (size_t)n);
		tr_len += (size_t)n;
	} else {
		tr_reserve((size_t)n + 1);
		va_start(ap, fmt);
		vsnprintf(tr_buf + tr_len, (size_t)n + 1, fmt, ap);
		va_end(ap);
		tr_len += (size_t)n;
	}
}

static void tr_hex(const uint8_t *b, size_t n) {
	static const char hx[] = "0123456789abcdef";
	tr_reserve(2 * n + 1);
	if (n == 0) {
		tr_buf[tr_len++] = '-';
		return;
	}
	for (size_t i = 0; i < n; i++) {
		tr_buf[tr_len++] = hx[b[i] >> 4];
		tr_buf[tr_len++] = hx[b[i] & 15];
	}
}

static void tr_str(const char *s) {
	size_t n = strlen(s);
	tr_reserve(n);
	memcpy(tr_buf + tr_len, s, n);
	tr_len += n;
}

/*============================================================================*/
/* Plan access                                                                */
/*============================================================================*/

static char *plan_buf = NULL;
static size_t plan_len = 0;
static size_t plan_pos = 0;

/* Returns the next non-empty, non-comment line (NUL terminated in place), or
 * NULL at the end of the plan. */
static char *plan_next_line(void) {
	while (plan_pos < plan_len) {
		char *s = plan_buf + plan_pos;
		char *e = memchr(s, '\n', plan_len - plan_pos);
		size_t l = e ? (size_t)(e - s) : plan_len - plan_pos;
		plan_pos += l + (e ? 1 : 0);
		s[l] = 0;
		while (*s == ' ' || *s == '\t') s++;
		if (*s == 0 || *s == '#') continue;
		return s;
	}
	return NULL;
}

/* Splits a line into at most max tokens separated by blanks (in place). */
static int plan_split(char *line, char **tok, int max) {
	int n = 0;
	char *s = line;
	while (*s && n < max) {
		while (*s == ' ' || *s == '\t') s++;
		if (!*s) break;
		tok[n++] = s;
		while (*s && *s != ' ' && *s != '\t') s++;
		if (*s) *s++ = 0;
	}
	return n;
}

static int hexval(int c) {
	if (c >= '0' && c <= '9') return c - '0';
	if (c >= 'a' && c <= 'f') return c - 'a' + 10;
	if (c >= 'A' && c <= 'F') return c - 'A' + 10;
	return -1;
}

/* Decodes hex ("-" is the empty string) into out (capacity cap); returns the
 * number of bytes, or -1. */
static long hex_decode(const char *s, uint8_t *out, size_t cap) {
	if (s[0] == '-' && s[1] == 0) return 0;
	size_t n = strlen(s);
	if (n & 1) return -1;
	n /= 2;
	if (n > cap) return -1;
	for (size_t i = 0; i < n; i++) {
		int a = hexval(s[2 * i]), b = hexval(s[2 * i + 1]);
		if (a < 0 || b < 0) return -1;
		out[i] = (uint8_t)(a * 16 + b);
	}
	return (long)n;
}

/* "key=value" lookup among tokens; returns value or NULL. */
static const char *tok_kv(char **tok, int n, const char *key) {
	size_t kl = strlen(key);
	for (int i = 0; i < n; i++) {
		if (strncmp(tok[i], key, kl) == 0 && tok[i][kl] == '=') {
			return tok[i] + kl + 1;
		}
	}
	return NULL;
}

static long tok_kv_long(char **tok, int n, const char *key, long dflt) {
	const char *v = tok_kv(tok, n, key);
	return v ? strtol(v, NULL, 0) : dflt;
}

static int tok_has(char **tok, int n, const char *word) {
	for (int i = 0; i < n; i++) {
		if (strcmp(tok[i], word) == 0) return 1;
	}
	return 0;
}

/*============================================================================*/
/* Deterministic 64-bit mixer (SplitMix64) for plan-keyed fill patterns.      */
/* This is not a source of decisions: it only expands a plan-given number     */
/* into a byte pattern.                                                       */
/*============================================================================*/

static uint64_t sim_mix64(uint64_t *s) {
	uint64_t z = (*s += 0x9E3779B97F4A7C15ULL);
	z = (z ^ (z >> 30)) * 0xBF58476D1CE4E5B9ULL;
	z = (z ^ (z >> 27)) * 0x94D049BB133111EBULL;
	return z ^ (z >> 31);
}

static void sim_fill(uint8_t *p, size_t n, uint64_t *state) {
	size_t i = 0;
	while (i < n) {
		uint64_t v = sim_mix64(state);
		for (int j = 0; j < 8 && i < n; j++, i++) {
			p[i] = (uint8_t)(v >> (8 * j));
		}
	}
}

/*============================================================================*/
/* Simulated entropy device (N1): /dev/urandom behind open/read/close.        */
/*============================================================================*/

#define SIM_DEV_FD 1000
#define SIM_DEV_MAXCHUNK 64

typedef struct {
	uint8_t data[1024];		/* what the device will deliver, in order */
	size_t len, pos;
	uint64_t cont;			/* continuation stream once data is exhausted */
	int chunks[SIM_DEV_MAXCHUNK];	/* per-read behaviour: >0 short read of that
									 * many bytes, 0 = read returns 0 once,
									 * -1 = read fails with EINTR, -2 = EIO */
	int nchunks, chunk_pos;
	int open_fail;			/* next open of the device fails */
	int is_open;
	/* statistics */
	long n_open, n_read, n_short, n_zero, n_err, n_close, n_bytes;
	uint8_t delivered[2048];
	size_t delivered_len;
} sim_dev_t;

static sim_dev_t sim_dev_main;
/* Per-thread devices are selected by thrsim through this pointer. */
static __thread sim_dev_t *sim_dev_cur = NULL;

static sim_dev_t *sim_dev(void) {
	return sim_dev_cur ? sim_dev_cur : &sim_dev_main;
}

static void sim_dev_reset(sim_dev_t *d, const uint8_t *data, size_t len, uint64_t cont) {
	memset(d, 0, sizeof(*d));
	if (len > sizeof(d->data)) len = sizeof(d->data);
	if (len) memcpy(d->data, data, len);
	d->len = len;
	d->cont = cont;
}

int __real_open(const char *path, int flags, ...);
ssize_t __real_read(int fd, void *buf, size_t n);
int __real_close(int fd);

int __wrap_open(const char *path, int flags, ...) {
	if (path && (strcmp(path, "/dev/urandom") == 0 || strcmp(path, "/dev/random") == 0)) {
		sim_dev_t *d = sim_dev();
		d->n_open++;
		if (d->open_fail) {
			d->open_fail = 0;
			errno = ENOENT;
			return -1;
		}
		d->is_open = 1;
		return SIM_DEV_FD;
	}
	mode_t mode = 0;
	if (flags & O_CREAT) {
		va_list ap;
		va_start(ap, flags);
		mode = (mode_t)va_arg(ap, int);
		va_end(ap);
	}
	return __real_open(path, flags, mode);
}

ssize_t __wrap_read(int fd, void *buf, size_t n) {
	if (fd != SIM_DEV_FD) {
		return __real_read(fd, buf, n);
	}
	sim_dev_t *d = sim_dev();
	d->n_read++;
	size_t want = n;
	if (d->chunk_pos < d->nchunks) {
		int c = d->chunks[d->chunk_pos++];
		if (c == -1) { d->n_err++; errno = EINTR; return -1; }
		if (c == -2) { d->n_err++; errno = EIO; return -1; }
		if (c == 0) { d->n_zero++; return 0; }
		if ((size_t)c < want) { want = (size_t)c; d->n_short++; }
	}
	uint8_t *out = (uint8_t *)buf;
	for (size_t i = 0; i < want; i++) {
		uint8_t b;
		if (d->pos < d->len) {
			b = d->data[d->pos++];
		} else {
			b = (uint8_t)sim_mix64(&d->cont);
		}
		out[i] = b;
		if (d->delivered_len < sizeof(d->delivered)) {
			d->delivered[d->delivered_len++] = b;
		}
	}
	d->n_bytes += (long)want;
	return (ssize_t)want;
}

int __wrap_close(int fd) {
	if (fd == SIM_DEV_FD) {
		sim_dev_t *d = sim_dev();
		d->n_close++;
		d->is_open = 0;
		return 0;
	}
	return __real_close(fd);
}

/*============================================================================*/
/* Fault-injecting allocator (N3/N4), config D only.                          */
/*============================================================================*/

#ifdef SIM_WRAP_ALLOC

void *__real_malloc(size_t n);
void *__real_calloc(size_t a, size_t b);
void *__real_realloc(void *p, size_t n);
void __real_free(void *p);

typedef struct {
	int active;			/* count and inject only while a simulated op runs */
	long count;			/* allocations (malloc/calloc/realloc) seen */
	long fail_at[4];	/* 1-based indices that fail; 0 = unused */
	long fired;			/* how many injected failures actually happened */
	long live;			/* live blocks allocated while active (balance metric) */
	uint64_t fill;		/* garbage pattern state */
	int fill_on;
} sim_alloc_t;

static sim_alloc_t sim_alloc;

static int sim_alloc_should_fail(void) {
	sim_alloc.count++;
	for (int i = 0; i < 4; i++) {
		if (sim_alloc.fail_at[i] && sim_alloc.fail_at[i] == sim_alloc.count) {
			sim_alloc.fired++;
			return 1;
		}
	}
	return 0;
}

void *__wrap_malloc(size_t n) {
	if (!sim_alloc.active) return __real_malloc(n);
	if (sim_alloc_should_fail()) { errno = ENOMEM; return NULL; }
	void *p = __real_malloc(n);
	if (p) {
		sim_alloc.live++;
		if (sim_alloc.fill_on) sim_fill((uint8_t *)p, n, &sim_alloc.fill);
	}
	return p;
}

void *__wrap_calloc(size_t a, size_t b) {
	if (!sim_alloc.active) return __real_calloc(a, b);
	if (sim_alloc_should_fail()) { errno = ENOMEM; return NULL; }
	void *p = __real_calloc(a, b);
	if (p) sim_alloc.live++;
	return p;
}

void *__wrap_realloc(void *p, size_t n) {
	if (!sim_alloc.active) return __real_realloc(p, n);
	if (sim_alloc_should_fail()) { errno = ENOMEM; return NULL; }
	/* Growing: the new tail is never-written storage and gets the pattern. */
	size_t old = p ? malloc_usable_size(p) : 0;
	void *q = __real_realloc(p, n);
	if (q && !p) sim_alloc.live++;
	if (q && sim_alloc.fill_on && n > old) sim_fill((uint8_t *)q + old, n - old, &sim_alloc.fill);
	return q;
}

void __wrap_free(void *p) {
	if (sim_alloc.active && p) sim_alloc.live--;
	__real_free(p);
}

static void *sim_sys_realloc(void *p, size_t n) { return __real_realloc(p, n); }
static void *sim_sys_malloc(size_t n) { return __real_malloc(n); }
static void sim_sys_free(void *p) { __real_free(p); }

#else

/* Without the wrapped allocator (static allocation builds) the fault window is inert. */
typedef struct {
	int active;
	long count;
	long fail_at[4];
	long fired;
	long live;
	uint64_t fill;
	int fill_on;
} sim_alloc_t;
static sim_alloc_t sim_alloc;

static void *sim_sys_realloc(void *p, size_t n) { return realloc(p, n); }
static void *sim_sys_malloc(size_t n) { return malloc(n); }
static void sim_sys_free(void *p) { free(p); }

#endif /* SIM_WRAP_ALLOC */

/*============================================================================*/
/* Sanitizer defaults                                                         */
/*============================================================================*/

__attribute__((used, visibility("default"))) const char *__asan_default_options(void) {
	return "exitcode=77:detect_leaks=0:abort_on_error=0:allocator_may_return_null=1:detect_stack_use_after_return=0";
}

__attribute__((used, visibility("default"))) const char *__ubsan_default_options(void) {
	return "halt_on_error=1:exitcode=77:print_stacktrace=1";
}

/*============================================================================*/
/* Helpers shared by engines                                                  */
/*============================================================================*/

/* Re-instantiates the library generator from plan bytes (fresh instantiate,
 * not the reseed path). */
static void sim_reseed_fresh(const uint8_t *seed, size_t len) {
	rand_clean();
	rand_seed((uint8_t *)seed, len);
}

/* Scrubs a region of stack below the current frame with a seeded pattern, so
 * that stack temporaries of the next library call start from plan-decided
 * garbage (N4). */
static void __attribute__((noinline)) sim_scrub_stack(uint64_t seed) {
	volatile uint8_t area[192 * 1024];
	uint64_t s = seed;
	sim_fill((uint8_t *)area, sizeof(area), &s);
	__asm__ volatile("" : : "r"(area) : "memory");
}

/* Same region set to zero: for engines in which the contents of never-written stack storage are not the
 * subject (a cleanup path that releases a never-initialised slot then meets NULL whatever ran before). */
static void __attribute__((noinline)) sim_zero_stack(void) {
	volatile uint8_t area[192 * 1024];
	memset((void *)area, 0, sizeof(area));
	__asm__ volatile("" : : "r"(area) : "memory");
}

/*============================================================================*/
/* Main loop                                                                  */
/*============================================================================*/

/* Implemented by each engine: interpret plan_buf and fill the transcript. */
static void engine_run(void);
/* Optional one-time initialisation. */
static void engine_boot(void);

static int read_full(int fd, void *buf, size_t n) {
	size_t got = 0;
	while (got < n) {
		ssize_t r = __real_read(fd, (char *)buf + got, n - got);
		if (r < 0 && errno == EINTR) continue;
		if (r <= 0) return -1;
		got += (size_t)r;
	}
	return 0;
}

static int write_full(int fd, const void *buf, size_t n) {
	size_t put = 0;
	while (put < n) {
		ssize_t r = write(fd, (const char *)buf + put, n - put);
		if (r < 0 && errno == EINTR) continue;
		if (r <= 0) return -1;
		put += (size_t)r;
	}
	return 0;
}

static int read_line_fd(int fd, char *line, size_t cap) {
	size_t n = 0;
	while (n + 1 < cap) {
		char c;
		ssize_t r = __real_read(fd, &c, 1);
		if (r < 0 && errno == EINTR) continue;
		if (r <= 0) return -1;
		if (c == '\n') break;
		line[n++] = c;
	}
	line[n] = 0;
	return (int)n;
}

int main(int argc, char **argv) {
	/* relic's own diagnostics (VERBS) go to stderr; the orchestrator points
	 * stderr at a scratch file and the sanitizers at log_path files. */
	engine_boot();
	if (argc > 1) {
		FILE *f = fopen(argv[1], "rb");
		if (!f) { perror(argv[1]); return 2; }
		fseek(f, 0, SEEK_END);
		long sz = ftell(f);
		fseek(f, 0, SEEK_SET);
		plan_buf = (char *)sim_sys_malloc((size_t)sz + 1);
		if (fread(plan_buf, 1, (size_t)sz, f) != (size_t)sz) return 2;
		fclose(f);
		plan_buf[sz] = 0;
		plan_len = (size_t)sz;
		plan_pos = 0;
		tr_len = 0;
		engine_run();
		write_full(1, tr_buf, tr_len);
		return 0;
	}
	char line[128];
	for (;;) {
		if (read_line_fd(0, line, sizeof(line)) < 0) break;
		if (strncmp(line, "RUN ", 4) != 0) {
			if (strcmp(line, "QUIT") == 0) break;
			continue;
		}
		size_t n = (size_t)strtoul(line + 4, NULL, 10);
		plan_buf = (char *)sim_sys_realloc(plan_buf, n + 1);
		if (read_full(0, plan_buf, n) < 0) break;
		plan_buf[n] = 0;
		plan_len = n;
		plan_pos = 0;
		tr_len = 0;
		engine_run();
		char hdr[64];
		int hl = snprintf(hdr, sizeof(hdr), "DONE %zu\n", tr_len);
		if (write_full(1, hdr, (size_t)hl) < 0) break;
		if (write_full(1, tr_buf, tr_len) < 0) break;
	}
	return 0;
}

#endif /* SIMCOMMON_H */
