/*
 * allocsim executor (config D: ALLOC=DYNAMIC + wrapped allocator), DESIGN.md 3.4.1.
 *
 * Plan:
 *   CURVE <name>                      select the prime curve (pairing ops need BN_P256/SM9_P256)
 *   OP <name> seed=<hex> size=<cls> fail=<all|none|k1,k2,..> max=<n> pick=<n> from=<k> fill=<a>,<b> [pair=<n>]
 *
 * For an OP line the executor
 *   1. builds the op's inputs from the seed (outside the fault window),
 *   2. runs it fault-free twice under two garbage-fill patterns (N4 differential) and counts
 *      its allocations A,
 *   3. for each selected k re-creates the inputs, makes allocation k fail, runs the op inside a
 *      protected block, fetches the sticky code, then runs the op again fault-free and a fixed
 *      usability probe, and logs one line per k.
 * Before every faulted run a progress marker goes to stderr so that a sanitizer abort can be
 * attributed to its (op, k).
 */
#include "simcommon.h"

#define NB 8
#define NP 6
#define OUTMAX 16384

static bn_t B[NB];			/* integer inputs */
static bn_t R[NB];			/* integer results */
static fp_t F[4], FR[4];
static ep_t P[NP], PR[NP];
static ep_t *TAB;			/* fixed-base table */
static g1_t G1[4];
static g2_t G2[4];
static gt_t GT[4];
static uint8_t msg[512], buf[4096], buf2[4096];
static size_t msg_len;
/* input bytes are handed over in a heap block that ends with the last byte of the input: a read beyond the stated
 * length is a read beyond the block */
static uint8_t *mx_base = NULL;
static const uint8_t *mx(size_t n) {
	if (mx_base == NULL) mx_base = (uint8_t *)sim_sys_malloc(sizeof(msg));
	if (n > sizeof(msg)) n = sizeof(msg);
	memcpy(mx_base + sizeof(msg) - n, msg, n);
	return mx_base + sizeof(msg) - n;
}
static int has_pc = 0;
static int cur_curve = -1;
static char size_cls[16];
/* element count of the array-taking ops (plan field n=, 0..12) */
static int cnt = 3;
#define NMAX 13
/* the n elements handed to an array-taking function are the last n of the array, so that element n is beyond it
 * (stack redzone) - for n = 0 the function gets a pointer to no element at all */
#define TAIL(A, N) ((A) + (NMAX - (N)))

/* long-lived keys, created at boot outside any fault window */
static rsa_t rsa_pub, rsa_prv;
static bn_t ph_pub;
static phpe_t ph_prv;
static rabin_t rab_pub, rab_prv;
static bdpe_t bd_pub, bd_prv;
static int have_keys2 = 0;
static bn_t ec_d;
static ec_t ec_q;
static bn_t bls_d;
static g2_t bls_q;
static int have_keys = 0;

static uint8_t outbuf[OUTMAX];
static size_t out_len;

static void out_bytes(const uint8_t *b, size_t n) {
	if (out_len + n + 2 > OUTMAX) return;
	outbuf[out_len++] = (uint8_t)(n >> 8);
	outbuf[out_len++] = (uint8_t)n;
	memcpy(outbuf + out_len, b, n);
	out_len += n;
}
static void out_int(long v) {
	uint8_t t[8];
	for (int i = 0; i < 8; i++) t[i] = (uint8_t)((unsigned long)v >> (8 * i));
	out_bytes(t, 8);
}
/* Output encoders run outside the fault window and inside their own protected block. */
static void out_bn(const bn_t a) {
	RLC_TRY {
		uint8_t t[RLC_BN_SIZE * 8 * 3 + 8];
		size_t l = bn_size_bin(a);
		if (l > sizeof(t) - 1) l = sizeof(t) - 1;
		t[0] = (uint8_t)(bn_sign(a) == RLC_NEG);
		bn_write_bin(t + 1, l, a);
		out_bytes(t, l + 1);
	} RLC_CATCH_ANY {
		out_bytes((const uint8_t *)"E", 1);
	}
}
static void out_fp(const fp_t a) {
	RLC_TRY {
		uint8_t t[RLC_FP_BYTES];
		fp_write_bin(t, RLC_FP_BYTES, a);
		out_bytes(t, RLC_FP_BYTES);
	} RLC_CATCH_ANY {
		out_bytes((const uint8_t *)"E", 1);
	}
}
static void out_ep(const ep_t p) {
	RLC_TRY {
		uint8_t t[2 * RLC_FP_BYTES + 1];
		size_t l = ep_size_bin(p, 0);
		ep_write_bin(t, l, p, 0);
		out_bytes(t, l);
	} RLC_CATCH_ANY {
		out_bytes((const uint8_t *)"E", 1);
	}
}
static void out_g2(const g2_t p) {
	RLC_TRY {
		uint8_t t[8 * RLC_FP_BYTES + 1];
		size_t l = g2_size_bin(p, 0);
		g2_write_bin(t, l, p, 0);
		out_bytes(t, l);
	} RLC_CATCH_ANY {
		out_bytes((const uint8_t *)"E", 1);
	}
}
static void out_gt(const gt_t p) {
	RLC_TRY {
		uint8_t t[12 * RLC_FP_BYTES + 1];
		size_t l = gt_size_bin(p, 0);
		gt_write_bin(t, l, p, 0);
		out_bytes(t, l);
	} RLC_CATCH_ANY {
		out_bytes((const uint8_t *)"E", 1);
	}
}

#define WIN_ON()	(sim_alloc.active = 1)
#define WIN_OFF()	(sim_alloc.active = 0)
/* the call under test runs inside the fault window */
/* a call that returns normally must leave the handler chain as it found it: a chain left pointing into
 * the returned frame makes the next reported error read dead stack storage */
static int chain_bad;
static int bare_mode;
#define W(stmt) do { sts_t *_chain = core_get()->last; WIN_ON(); stmt; WIN_OFF(); \
	if (!bare_mode && core_get()->last != _chain) { chain_bad = 1; core_get()->last = _chain; } } while (0)

/*============================================================================*/
/* Input construction                                                         */
/*============================================================================*/

static void rnd_bn(bn_t a, size_t bits) {
	bn_rand(a, RLC_POS, bits);
}

static void setup_inputs(void) {
	size_t bits = 256;
	bn_t n;
	bn_null(n);
	bn_new(n);
	ep_curve_get_ord(n);
	if (strcmp(size_cls, "small") == 0) bits = 40;
	else if (strcmp(size_cls, "half") == 0) bits = 128;
	else if (strcmp(size_cls, "big") == 0) bits = 700;
	else if (strcmp(size_cls, "full") == 0) bits = RLC_BN_BITS - 8;
	else if (strcmp(size_cls, "edge") == 0) bits = RLC_BN_BITS;
	else if (strcmp(size_cls, "over") == 0) bits = RLC_BN_BITS + 60;
	/* half of the digit capacity of an integer object: products fill it exactly / exceed it by one bit */
	else if (strcmp(size_cls, "cap") == 0) bits = (size_t)(RLC_BN_SIZE / 2) * RLC_DIG;
	else if (strcmp(size_cls, "cap1") == 0) bits = (size_t)(RLC_BN_SIZE / 2) * RLC_DIG + 1;
	for (int i = 0; i < NB; i++) {
#if ALLOC == DYNAMIC
		/* every run starts from objects of the initial allocation size: an object enlarged by an earlier run
		 * would not need the realloc whose failure is to be injected */
		bn_free(B[i]); bn_new(B[i]);
		bn_free(R[i]); bn_new(R[i]);
#endif
		rnd_bn(B[i], bits);
		bn_zero(R[i]);
	}
	if (strncmp(size_cls, "cap", 3) == 0) { for (int i = 0; i < NB; i++) { bn_set_bit(B[i], bits - 1, 1); bn_set_bit(B[i], bits - 2, 1); } }
	if (strcmp(size_cls, "zero") == 0) { bn_zero(B[0]); bn_zero(B[1]); }
	if (strcmp(size_cls, "one") == 0) { bn_set_dig(B[0], 1); bn_set_dig(B[1], 1); }
	if (strcmp(size_cls, "order") == 0) { bn_copy(B[0], n); bn_sub_dig(B[1], n, 1); }
	/* scalars that reduce to zero only after reduction, negative ones, zero digits inside recodings */
	if (strcmp(size_cls, "order2") == 0) { rnd_bn(B[0], 256); bn_copy(B[1], n); }
	if (strcmp(size_cls, "order3") == 0) { bn_dbl(B[0], n); bn_add_dig(B[1], n, 1); }
	if (strcmp(size_cls, "negord") == 0) { bn_neg(B[0], n); bn_set_dig(B[1], 1); bn_neg(B[1], B[1]); }
	/* negative scalars far longer than the order (and one of the length of the order) */
	if (strcmp(size_cls, "negbig") == 0) { for (int i = 0; i < NB; i++) { if (i != 2 && i != 4) { rnd_bn(B[i], (i & 1) ? 256 : 640 + 64 * (size_t)i); bn_neg(B[i], B[i]); } } }
	if (strcmp(size_cls, "zdig") == 0) {
		for (int i = 0; i < NB; i++) { rnd_bn(B[i], 256); if (B[i]->used >= 4) { B[i]->dp[1] = 0; B[i]->dp[2] = (i & 1) ? 0 : B[i]->dp[2] << 40; } }
	}
	if (strcmp(size_cls, "lowzero") == 0) {
		for (int i = 0; i < NB; i++) { rnd_bn(B[i], 250); if (B[i]->used >= 4) { B[i]->dp[0] = 0; B[i]->dp[1] = (i & 1) ? 0 : B[i]->dp[1] & ~(dig_t)0xFFFFFF; } }
	}
	if (strcmp(size_cls, "pow2") == 0) { bn_set_2b(B[0], 255); bn_set_2b(B[1], 64); bn_set_2b(B[3], 128); }
	if (strcmp(size_cls, "ones") == 0) { bn_set_2b(B[0], 256); bn_sub_dig(B[0], B[0], 1); bn_set_2b(B[1], 192); bn_sub_dig(B[1], B[1], 1); }
	/* B[2]: odd modulus >= 3; B[3]: exponent; B[4]: second odd modulus */
	if (bn_is_even(B[2])) bn_add_dig(B[2], B[2], 1);
	if (bn_cmp_dig(B[2], 3) == RLC_LT) bn_set_dig(B[2], 1000003);
	if (bn_is_even(B[4])) bn_add_dig(B[4], B[4], 1);
	if (bn_cmp_dig(B[4], 3) == RLC_LT) bn_set_dig(B[4], 65537);
	for (int i = 0; i < 4; i++) {
		fp_rand(F[i]);
		fp_zero(FR[i]);
	}
	if (strcmp(size_cls, "zero") == 0) fp_zero(F[1]);
	for (int i = 0; i < NP; i++) {
		ep_rand(P[i]);
		ep_set_infty(PR[i]);
	}
	if (strcmp(size_cls, "zero") == 0) ep_set_infty(P[1]);
	if (has_pc) {
		for (int i = 0; i < 4; i++) {
			g1_rand(G1[i]);
			g2_rand(G2[i]);
			gt_rand(GT[i]);
		}
	}
	memset(msg, 0, sizeof(msg));
	msg_len = 1 + (B[5]->dp[0] % 200);
	rand_bytes(msg, msg_len);
	bn_free(n);
}

/*============================================================================*/
/* Op table                                                                   */
/*============================================================================*/

typedef struct {
	const char *name;
	void (*run)(void);
	int need_pc;
} op_t;

#define OP(NAME) static void op_##NAME(void)

/* ---- bn ---- */
OP(bn_add) { W(bn_add(R[0], B[0], B[1])); out_bn(R[0]); }
OP(bn_sub) { W(bn_sub(R[0], B[0], B[1])); out_bn(R[0]); }
OP(bn_mul_basic) { W(bn_mul_basic(R[0], B[0], B[1])); out_bn(R[0]); }
OP(bn_mul_comba) { W(bn_mul_comba(R[0], B[0], B[1])); out_bn(R[0]); }
OP(bn_mul_karat) { W(bn_mul_karat(R[0], B[0], B[1])); out_bn(R[0]); }
OP(bn_sqr_basic) { W(bn_sqr_basic(R[0], B[0])); out_bn(R[0]); }
OP(bn_sqr_comba) { W(bn_sqr_comba(R[0], B[0])); out_bn(R[0]); }
OP(bn_sqr_karat) { W(bn_sqr_karat(R[0], B[0])); out_bn(R[0]); }
/* shift amounts from the seed: small, whole digits, and around the amount that fills the destination exactly
 * (the carry out of the top digit then needs one digit more than the capacity) */
OP(bn_lsh) {
	dig_t r = B[6]->dp[0];
	long sh;
	switch (r % 4) {
		case 0: sh = (long)((r >> 8) % 200); break;
		case 1: sh = (long)RLC_DIG * (long)((r >> 8) % 20); break;
		default: sh = (long)RLC_BN_SIZE * RLC_DIG - (long)bn_bits(B[0]) + (long)((r >> 8) % 141) - 70; break;
	}
	if (sh < 0) sh = 0;
	W(bn_lsh(R[0], B[0], (uint_t)sh)); out_bn(R[0]);
}
/* growth at the digit capacity: operands that occupy every digit of an integer object (all ones, or a seeded
 * value with the top bit set), so that a carry / one more bit needs a digit beyond the capacity - a precision
 * error with static allocation, a realloc (which may fail, leaving the operand intact) with dynamic allocation */
static void full_capacity(bn_t m, int ones) {
	bn_grow(m, RLC_BN_SIZE);
	for (size_t i = 0; i < RLC_BN_SIZE; i++) m->dp[i] = ones ? ~(dig_t)0 : (B[i % NB]->dp[0] | 1);
	m->dp[RLC_BN_SIZE - 1] |= (dig_t)1 << (RLC_DIG - 1);
	m->used = RLC_BN_SIZE;
	m->sign = RLC_POS;
}
OP(bn_grow_add) { full_capacity(R[1], (int)(B[6]->dp[0] & 1)); full_capacity(R[2], 1); W(bn_add(R[0], R[1], R[2])); out_bn(R[0]); }
OP(bn_grow_add_dig) { full_capacity(R[1], 1); W(bn_add_dig(R[0], R[1], 1 + (B[6]->dp[0] & 7))); out_bn(R[0]); }
OP(bn_grow_mul_dig) { full_capacity(R[1], (int)(B[6]->dp[0] & 1)); W(bn_mul_dig(R[0], R[1], 2 + (B[6]->dp[0] & 0xFF))); out_bn(R[0]); }
OP(bn_grow_dbl) { full_capacity(R[1], (int)(B[6]->dp[0] & 1)); W(bn_dbl(R[0], R[1])); out_bn(R[0]); }
OP(bn_grow_sub_neg) { full_capacity(R[1], 1); full_capacity(R[2], 0); bn_neg(R[2], R[2]); W(bn_sub(R[0], R[1], R[2])); out_bn(R[0]); }
/* arguments that address digits at and beyond the capacity of the object: bit positions, bit lengths, byte lengths.
 * The destination is an integer object in a heap block of exactly its size (with static allocation the digit
 * array is part of the object), so that one digit too many is visible to the sanitizer. */
#if ALLOC == AUTO
#define HEAP_BN(h) bn_st *h = (bn_st *)sim_sys_malloc(sizeof(bn_st)); bn_make(h, RLC_BN_SIZE)
#define HEAP_BN_FREE(h) sim_sys_free(h)
#else
#define HEAP_BN(h) bn_t h; bn_null(h); bn_new(h)
#define HEAP_BN_FREE(h) bn_free(h)
#endif
OP(bn_cap_set_bit) {
	static const long offs[8] = { -65, -1, 0, 1, 63, 64, 65, 700 };
	long bit = (long)RLC_BN_SIZE * RLC_DIG + offs[B[6]->dp[0] % 8];
	HEAP_BN(h);
	bn_copy(h, B[0]);
	W(bn_set_bit(h, (uint_t)bit, (int)((B[6]->dp[0] >> 8) & 1)));
	out_int(bit); out_int(h->used <= h->alloc);
	HEAP_BN_FREE(h);
}
OP(bn_cap_rand) {
	static const long offs[8] = { -64, -1, 0, 1, 64, 65, 128, 900 };
	long bits = (long)RLC_BN_SIZE * RLC_DIG + offs[B[6]->dp[0] % 8];
	HEAP_BN(h);
	W(bn_rand(h, RLC_POS, (size_t)bits));
	out_int(bits); out_int(h->used <= h->alloc);
	HEAP_BN_FREE(h);
}
OP(bn_cap_read_bin) {
	static const long offs[8] = { -8, -1, 0, 1, 7, 8, 9, 300 };
	long len = (long)RLC_BN_SIZE * (RLC_DIG / 8) + offs[B[6]->dp[0] % 8];
	uint8_t *in = (uint8_t *)sim_sys_malloc((size_t)len);
	HEAP_BN(h);
	for (long i = 0; i < len; i++) in[i] = (uint8_t)(0x80 | (i * 37 + (long)B[6]->dp[0]));
	W(bn_read_bin(h, in, (size_t)len));
	out_int(len); out_int(h->used <= h->alloc);
	HEAP_BN_FREE(h);
	sim_sys_free(in);
}
OP(bn_cap_read_raw) {
	static const long offs[8] = { -1, 0, 1, 1, 2, 8, 9, 40 };
	long len = (long)RLC_BN_SIZE + offs[B[6]->dp[0] % 8];
	dig_t *in = (dig_t *)sim_sys_malloc((size_t)len * sizeof(dig_t));
	HEAP_BN(h);
	for (long i = 0; i < len; i++) in[i] = (dig_t)0x8000000000000001ULL * (dig_t)(i + 1) + B[6]->dp[0];
	W(bn_read_raw(h, in, (size_t)len));
	out_int(len); out_int(h->used <= h->alloc);
	HEAP_BN_FREE(h);
	sim_sys_free(in);
}
OP(bn_cap_copy_lsh) {
	/* a shift computed into a heap object: the result needs one digit more than there is */
	long sh = (long)RLC_BN_SIZE * RLC_DIG - (long)bn_bits(B[0]) + (long)(B[6]->dp[0] % 130) - 64;
	HEAP_BN(h);
	if (sh < 0) sh = 0;
	W(bn_lsh(h, B[0], (uint_t)sh));
	out_int(sh); out_int(h->used <= h->alloc);
	HEAP_BN_FREE(h);
}
/* in place: the operand itself must grow; whatever happens it must stay a usable integer */
OP(bn_grow_lsh_inplace) {
	bn_copy(R[1], B[0]);
	W(bn_lsh(R[1], R[1], (uint_t)((long)RLC_BN_SIZE * RLC_DIG - (long)bn_bits(B[0]) + 1 + (long)(B[6]->dp[0] % 130))));
	out_bn(R[1]);
	bn_add_dig(R[1], R[1], 1); out_bn(R[1]);
}
/* a bit above the current length of a short integer: the digits in between have never been written */
OP(bn_set_bit_above) {
	bn_t t; bn_null(t); bn_new(t);
	/* the state after a short value was copied over a longer one: the digits above the length hold what the longer
	 * value left there (here: a pattern of the plan's choosing, so that the two-pattern differential sees a use of it) */
	memset(t->dp, (int)(sim_alloc.fill & 0xFF) | 1, (size_t)t->alloc * sizeof(dig_t));
	t->dp[0] = 5; t->used = 1; t->sign = RLC_POS;
	W(bn_set_bit(t, (uint_t)(64 + B[6]->dp[0] % (RLC_BN_BITS - 64)), 1));
	out_bn(t);
	bn_set_bit(t, (uint_t)(B[5]->dp[0] % RLC_BN_BITS), 0); out_bn(t);
	bn_free(t);
}
OP(bn_grow_add_inplace) { full_capacity(R[1], 1); W(bn_add_dig(R[1], R[1], 5)); out_bn(R[1]); bn_rsh(R[1], R[1], 3); out_bn(R[1]); }

/* divisor / modulus of a seeded shorter length (all B[i] of a class have the same length, which would make
 * every quotient trivial): R[3] = B[2] shifted right by a seeded share of its length, kept odd and >= 3 */
static void short_modulus_of(int shares) {
	size_t bits = bn_bits(B[2]);
	bn_rsh(R[3], B[2], (size_t)(B[6]->dp[0] % (dig_t)shares) * bits / 4);
	if (bn_is_even(R[3])) bn_add_dig(R[3], R[3], 1);
	if (bn_cmp_dig(R[3], 3) == RLC_LT) bn_set_dig(R[3], 1000003);
}
static void short_modulus(void) { short_modulus_of(4); }
OP(bn_div_rem) { short_modulus(); W(bn_div_rem(R[0], R[1], B[0], R[3])); out_bn(R[0]); out_bn(R[1]); }
OP(bn_div) { short_modulus(); W(bn_div(R[0], B[0], R[3])); out_bn(R[0]); }
OP(bn_mod_basic) { short_modulus(); W(bn_mod_basic(R[0], B[0], R[3])); out_bn(R[0]); }
OP(bn_mod_barrt) { short_modulus_of(2); W(bn_mod_pre_barrt(R[1], R[3]); bn_mod_barrt(R[0], B[0], R[3], R[1])); out_bn(R[0]); }
OP(bn_mod_monty) {
	W(bn_mod_pre_monty(R[1], B[2]); bn_mod_monty_conv(R[2], B[0], B[2]); bn_mod_monty(R[0], R[2], B[2], R[1]);
			bn_mod_monty_back(R[0], R[0], B[2]));
	out_bn(R[0]);
}
OP(bn_mod_inv) {
	bn_gcd(R[3], B[0], B[2]);
	if (bn_cmp_dig(R[3], 1) == RLC_EQ) { W(bn_mod_inv(R[0], B[0], B[2])); }
	out_bn(R[0]);
}
OP(bn_mxp_basic) { W(bn_mxp_basic(R[0], B[0], B[3], B[2])); out_bn(R[0]); }
OP(bn_mxp_slide) { W(bn_mxp_slide(R[0], B[0], B[3], B[2])); out_bn(R[0]); }
OP(bn_mxp_monty) { W(bn_mxp_monty(R[0], B[0], B[3], B[2])); out_bn(R[0]); }
OP(bn_mxp_dig) { W(bn_mxp_dig(R[0], B[0], 65537, B[2])); out_bn(R[0]); }
OP(bn_mxp_sim) { W(bn_mxp_sim(R[0], B[0], B[3], B[1], B[5], B[2])); out_bn(R[0]); }
OP(bn_srt) { W(bn_srt(R[0], B[0])); out_bn(R[0]); }
/* the second operand of a seeded shorter length (0, 1/4, 1/2, 3/4 of the digits cut off): operands of the same
 * length make every quotient a single small digit */
static void shorter_second(void) {
	size_t bits = bn_bits(B[1]);
	bn_rsh(R[3], B[1], (size_t)((B[6]->dp[0] >> 3) % 4) * bits / 4);
	if (bn_is_zero(R[3])) bn_set_dig(R[3], 6);
}
OP(bn_gcd_basic) { shorter_second(); W(bn_gcd_basic(R[0], B[0], R[3])); out_bn(R[0]); }
OP(bn_gcd_lehme) { shorter_second(); W(bn_gcd_lehme(R[0], B[0], R[3])); out_bn(R[0]); }
OP(bn_gcd_binar) { shorter_second(); W(bn_gcd_binar(R[0], B[0], R[3])); out_bn(R[0]); }
OP(bn_gcd_ext_basic) { shorter_second(); W(bn_gcd_ext_basic(R[0], R[1], R[2], B[0], R[3])); out_bn(R[0]); out_bn(R[1]); out_bn(R[2]); }
OP(bn_gcd_ext_lehme) { shorter_second(); W(bn_gcd_ext_lehme(R[0], R[1], R[2], B[0], R[3])); out_bn(R[0]); out_bn(R[1]); out_bn(R[2]); }
OP(bn_gcd_ext_binar) { shorter_second(); W(bn_gcd_ext_binar(R[0], R[1], R[2], B[0], R[3])); out_bn(R[0]); out_bn(R[1]); out_bn(R[2]); }
OP(bn_gcd_swapped) { shorter_second(); W(bn_gcd_lehme(R[0], R[3], B[0]); bn_gcd_basic(R[1], R[3], B[0])); out_bn(R[0]); out_bn(R[1]); }
OP(bn_gcd_ext_mid) { W(bn_gcd_ext_mid(R[0], R[1], R[2], R[3], B[0], B[2])); out_bn(R[0]); out_bn(R[1]); }
OP(bn_lcm) { W(bn_lcm(R[0], B[0], B[1])); out_bn(R[0]); }
OP(bn_smb_leg) { int r = 0; W(r = bn_smb_leg(B[0], B[2])); out_int(r); }
OP(bn_smb_jac) { int r = 0; W(r = bn_smb_jac(B[0], B[2])); out_int(r); }
OP(bn_is_prime) { int r = 0; W(r = bn_is_prime(B[2])); out_int(r); }
OP(bn_is_prime_solov) { int r = 0; W(r = bn_is_prime_solov(B[2])); out_int(r); }
OP(bn_gen_prime_small) { W(bn_gen_prime_basic(R[0], 48)); out_bn(R[0]); }
OP(bn_factor) { int r = 0; bn_mul_dig(R[1], B[2], 6); W(r = bn_factor(R[0], R[1])); out_int(r); out_bn(R[0]); }
OP(bn_rec_naf) {
	int8_t naf[RLC_BN_BITS + 2];
	size_t l = RLC_BN_BITS + 2;
	W(bn_rec_naf(naf, &l, B[0], 4));
	out_int((long)l); out_bytes((uint8_t *)naf, l);
}
OP(bn_rec_win) {
	uint8_t win[RLC_BN_BITS + 2];
	size_t l = RLC_BN_BITS + 2;
	W(bn_rec_win(win, &l, B[0], 4));
	out_int((long)l); out_bytes(win, l);
}
OP(bn_rec_slw) {
	uint8_t win[RLC_BN_BITS + 2];
	size_t l = RLC_BN_BITS + 2;
	W(bn_rec_slw(win, &l, B[0], 5));
	out_int((long)l); out_bytes(win, l);
}
OP(bn_rec_reg) {
	int8_t naf[RLC_BN_BITS + 2];
	size_t l = RLC_BN_BITS + 2;
	W(bn_rec_reg(naf, &l, B[0], bn_bits(B[0]), 4));
	out_int((long)l); out_bytes((uint8_t *)naf, l);
}
OP(bn_rec_jsf) {
	int8_t jsf[2 * (RLC_BN_BITS + 2)];
	size_t l = 2 * (RLC_BN_BITS + 2);
	W(bn_rec_jsf(jsf, &l, B[0], B[1]));
	out_int((long)l); out_bytes((uint8_t *)jsf, l);
}
OP(bn_rec_glv) {
	bn_t n;
	bn_null(n);
	bn_new(n);
	ep_curve_get_ord(n);
	if (ep_curve_is_endom()) {
		/* "a positive integer" is all the header asks for: in a third of the instances the scalar is handed over as it
		 * is (up to and beyond the precision), otherwise reduced modulo the order as the library's own callers do */
		if ((B[6]->dp[0] >> 13) % 3 == 0) bn_abs(R[2], B[0]); else bn_mod(R[2], B[0], n);
		W(bn_rec_glv(R[0], R[1], R[2], n, ep_curve_get_v1(), ep_curve_get_v2()));
	}
	out_bn(R[0]); out_bn(R[1]);
	bn_free(n);
}
OP(bn_read_str) {
	char s[RLC_BN_BITS + 8];
	bn_write_str(s, sizeof(s), B[0], 10);
	W(bn_read_str(R[0], s, strlen(s), 10));
	out_bn(R[0]);
}
OP(bn_write_str) {
	char s[RLC_BN_BITS + 8];
	memset(s, 0, sizeof(s));
	W(bn_write_str(s, sizeof(s), B[0], 7));
	out_bytes((uint8_t *)s, strlen(s));
}
OP(bn_read_bin) {
	size_t l = bn_size_bin(B[0]);
	bn_write_bin(buf, l, B[0]);
	W(bn_read_bin(R[0], buf, l));
	out_bn(R[0]);
}
OP(bn_lag) {
	bn_t c[NMAX + 1], a[NMAX], n;
	bn_null(n); bn_new(n);
	ep_curve_get_ord(n);
	for (int i = 0; i <= NMAX; i++) { bn_null(c[i]); bn_new(c[i]); bn_zero(c[i]); }
	for (int i = 0; i < NMAX; i++) { bn_null(a[i]); bn_new(a[i]); bn_mod(a[i], B[i % NB], n); bn_add_dig(a[i], a[i], i + 1); }
	W(bn_lag(TAIL(c, cnt), (const bn_t *)TAIL(a, cnt), n, (size_t)cnt));
	for (int i = 0; i <= cnt; i++) { out_bn(TAIL(c, cnt)[i]); }
	for (int i = 0; i <= NMAX; i++) { bn_free(c[i]); }
	for (int i = 0; i < NMAX; i++) { bn_free(a[i]); }
	bn_free(n);
}
OP(bn_evl) {
	bn_t a[NMAX], n;
	bn_null(n); bn_new(n);
	ep_curve_get_ord(n);
	for (int i = 0; i < NMAX; i++) { bn_null(a[i]); bn_new(a[i]); bn_mod(a[i], B[i % NB], n); }
	W(bn_evl(R[0], (const bn_t *)TAIL(a, cnt), B[3], n, (size_t)cnt));
	out_bn(R[0]);
	for (int i = 0; i < NMAX; i++) { bn_free(a[i]); }
	bn_free(n);
}
OP(bn_rand_mod) { W(bn_rand_mod(R[0], B[2])); out_bn(R[0]); }
OP(bn_mod_inv_sim) {
	bn_t c[NMAX], a[NMAX], n;
	bn_null(n); bn_new(n);
	ep_curve_get_ord(n);
	for (int i = 0; i < NMAX; i++) {
		bn_null(a[i]); bn_new(a[i]); bn_null(c[i]); bn_new(c[i]);
		bn_mod(a[i], B[i % NB], n);
		bn_add_dig(a[i], a[i], (dig_t)i);
		if (bn_is_zero(a[i])) bn_set_dig(a[i], 2);
		bn_zero(c[i]);
	}
	W(bn_mod_inv_sim(TAIL(c, cnt), (const bn_t *)TAIL(a, cnt), n, cnt));
	for (int i = 0; i < cnt; i++) { out_bn(TAIL(c, cnt)[i]); }
	for (int i = 0; i < NMAX; i++) { bn_free(a[i]); bn_free(c[i]); }
	bn_free(n);
}
OP(bn_mxp_sim_lot) {
	bn_t a[NMAX], b[NMAX];
	for (int i = 0; i < NMAX; i++) {
		bn_null(a[i]); bn_new(a[i]); bn_null(b[i]); bn_new(b[i]);
		bn_mod(a[i], B[i % NB], B[2]); bn_add_dig(a[i], a[i], (dig_t)i + 2);
		bn_mod_2b(b[i], B[(i + 1) % NB], 70);
	}
	W(bn_mxp_sim_lot(R[0], (const bn_t *)TAIL(a, cnt), (const bn_t *)TAIL(b, cnt), B[2], (size_t)cnt));
	if (cnt > 0) out_bn(R[0]);
	for (int i = 0; i < NMAX; i++) { bn_free(a[i]); bn_free(b[i]); }
}

/* ---- fp / fpx ---- */
OP(fp_mul) { W(fp_mul(FR[0], F[0], F[1])); out_fp(FR[0]); }
OP(fp_sqr) { W(fp_sqr(FR[0], F[0])); out_fp(FR[0]); }
/* shifts of a field element by every kind of amount - a few bits, whole digits, exactly and beyond the width of the
 * element ("the number of bits to shift" is all the header says) */
OP(fp_shift) {
	static const uint_t amounts[] = { 0, 1, 63, 64, 65, RLC_FP_BITS - 1, RLC_FP_BITS, RLC_FP_BITS + 1, RLC_FP_DIGS * RLC_DIG - 1,
		RLC_FP_DIGS * RLC_DIG, RLC_FP_DIGS * RLC_DIG + 1, (RLC_FP_DIGS + 1) * RLC_DIG, (RLC_FP_DIGS + 1) * RLC_DIG + 7, 1000, 100000 };
	uint_t b = amounts[(B[6]->dp[0] >> 3) % (sizeof(amounts) / sizeof(amounts[0]))];
	W(fp_rsh(FR[0], F[0], b)); out_fp(FR[0]);
	W(fp_lsh(FR[1], F[0], b)); out_fp(FR[1]);
}
#define FPINV(N) OP(fp_inv_##N) { if (!fp_is_zero(F[0])) { W(fp_inv_##N(FR[0], F[0])); } out_fp(FR[0]); }
FPINV(basic) FPINV(binar) FPINV(monty) FPINV(exgcd) FPINV(divst) FPINV(jmpds) FPINV(lower)
OP(fp_inv_sim) {
	fp_t a[NMAX], c[NMAX];
	for (int i = 0; i < NMAX; i++) {
		fp_null(a[i]); fp_null(c[i]); fp_new(a[i]); fp_new(c[i]);
		fp_add_dig(a[i], F[i % 4], (dig_t)i);
		if (fp_is_zero(a[i])) fp_set_dig(a[i], 5);
		fp_zero(c[i]);
	}
	W(fp_inv_sim(TAIL(c, cnt), (const fp_t *)TAIL(a, cnt), cnt));
	for (int i = 0; i < cnt; i++) { out_fp(TAIL(c, cnt)[i]); }
	for (int i = 0; i < NMAX; i++) { fp_free(a[i]); fp_free(c[i]); }
}
OP(fp2_inv_sim) {
	fp2_t a[NMAX], c[NMAX];
	for (int i = 0; i < NMAX; i++) {
		fp2_null(a[i]); fp2_null(c[i]); fp2_new(a[i]); fp2_new(c[i]);
		fp_add_dig(a[i][0], F[i % 4], (dig_t)i); fp_copy(a[i][1], F[(i + 1) % 4]);
		if (fp2_is_zero(a[i])) fp_set_dig(a[i][0], 5);
		fp2_zero(c[i]);
	}
	W(fp2_inv_sim(TAIL(c, cnt), (const fp2_t *)TAIL(a, cnt), cnt));
	for (int i = 0; i < cnt; i++) { out_fp(TAIL(c, cnt)[i][0]); out_fp(TAIL(c, cnt)[i][1]); }
	for (int i = 0; i < NMAX; i++) { fp2_free(a[i]); fp2_free(c[i]); }
}
OP(fp_exp_basic) { W(fp_exp_basic(FR[0], F[0], B[0])); out_fp(FR[0]); }
OP(fp_exp_slide) { W(fp_exp_slide(FR[0], F[0], B[0])); out_fp(FR[0]); }
OP(fp_exp_monty) { W(fp_exp_monty(FR[0], F[0], B[0])); out_fp(FR[0]); }
OP(fp_srt) { int r = 0; W(r = fp_srt(FR[0], F[0])); out_int(r); if (r) out_fp(FR[0]); }
OP(fp_smb) { int r = 0; W(r = fp_smb(F[0])); out_int(r); }
OP(fp_prime_conv) { W(fp_prime_conv(FR[0], B[0])); out_fp(FR[0]); }
OP(fp_prime_back) { W(fp_prime_back(R[0], F[0])); out_bn(R[0]); }
OP(fp_write_str) {
	char s[RLC_FP_BITS + 8];
	memset(s, 0, sizeof(s));
	W(fp_write_str(s, sizeof(s), F[0], 16));
	out_bytes((uint8_t *)s, strlen(s));
}
OP(fp_read_str) {
	char s[RLC_FP_BITS + 8];
	fp_write_str(s, sizeof(s), F[0], 16);
	W(fp_read_str(FR[0], s, strlen(s), 16));
	out_fp(FR[0]);
}
OP(fp_read_bin) {
	fp_write_bin(buf, RLC_FP_BYTES, F[0]);
	W(fp_read_bin(FR[0], buf, RLC_FP_BYTES));
	out_fp(FR[0]);
}
OP(fp2_inv) {
	fp2_t a, c;
	fp2_null(a); fp2_null(c); fp2_new(a); fp2_new(c);
	fp_copy(a[0], F[0]); fp_copy(a[1], F[1]);
	if (fp2_is_zero(a)) fp_set_dig(a[0], 1);
	W(fp2_inv(c, a));
	out_fp(c[0]); out_fp(c[1]);
	fp2_free(a); fp2_free(c);
}
OP(fp2_srt) {
	fp2_t a, c;
	int r = 0;
	fp2_null(a); fp2_null(c); fp2_new(a); fp2_new(c);
	fp_copy(a[0], F[0]); fp_copy(a[1], F[1]);
	fp2_sqr(a, a);
	W(r = fp2_srt(c, a));
	out_int(r); out_fp(c[0]); out_fp(c[1]);
	fp2_free(a); fp2_free(c);
}
OP(fp2_mul) {
	fp2_t a, b, c;
	fp2_null(a); fp2_null(b); fp2_null(c); fp2_new(a); fp2_new(b); fp2_new(c);
	fp_copy(a[0], F[0]); fp_copy(a[1], F[1]); fp_copy(b[0], F[2]); fp_copy(b[1], F[3]);
	W(fp2_mul(c, a, b));
	out_fp(c[0]); out_fp(c[1]);
	fp2_free(a); fp2_free(b); fp2_free(c);
}

/* ---- ep ---- */
OP(ep_add_basic) { W(ep_add_basic(PR[0], P[0], P[1])); out_ep(PR[0]); }
OP(ep_add_projc) { W(ep_add_projc(PR[0], P[0], P[1])); out_ep(PR[0]); }
OP(ep_add_jacob) { W(ep_add_jacob(PR[0], P[0], P[1])); out_ep(PR[0]); }
OP(ep_dbl_basic) { W(ep_dbl_basic(PR[0], P[0])); out_ep(PR[0]); }
OP(ep_dbl_projc) { W(ep_dbl_projc(PR[0], P[0])); out_ep(PR[0]); }
OP(ep_dbl_jacob) { W(ep_dbl_jacob(PR[0], P[0])); out_ep(PR[0]); }
OP(ep_norm) { ep_dbl_projc(PR[1], P[0]); W(ep_norm(PR[0], PR[1])); out_ep(PR[0]); }
OP(ep_norm_sim) {
	ep_t t[NMAX], r[NMAX];
	for (int i = 0; i < NMAX; i++) { ep_null(t[i]); ep_null(r[i]); ep_new(t[i]); ep_new(r[i]); ep_dbl_projc(t[i], P[i % NP]); ep_set_infty(r[i]); }
	W(ep_norm_sim(TAIL(r, cnt), (const ep_t *)TAIL(t, cnt), cnt));
	for (int i = 0; i < cnt; i++) { out_ep(TAIL(r, cnt)[i]); }
	for (int i = 0; i < NMAX; i++) { ep_free(t[i]); ep_free(r[i]); }
}
OP(ep_mul_basic) { W(ep_mul_basic(PR[0], P[0], B[0])); out_ep(PR[0]); }
OP(ep_mul_slide) { W(ep_mul_slide(PR[0], P[0], B[0])); out_ep(PR[0]); }
OP(ep_mul_monty) { W(ep_mul_monty(PR[0], P[0], B[0])); out_ep(PR[0]); }
OP(ep_mul_lwnaf) { W(ep_mul_lwnaf(PR[0], P[0], B[0])); out_ep(PR[0]); }
OP(ep_mul_lwreg) { W(ep_mul_lwreg(PR[0], P[0], B[0])); out_ep(PR[0]); }
OP(ep_mul_gen) { W(ep_mul_gen(PR[0], B[0])); out_ep(PR[0]); }
OP(ep_mul_dig) { W(ep_mul_dig(PR[0], P[0], B[0]->dp[0])); out_ep(PR[0]); }
OP(ep_mul_cof) { W(ep_mul_cof(PR[0], P[0])); out_ep(PR[0]); }
#define EPFIX(N) OP(ep_mul_fix_##N) { \
	for (int i = 0; i < RLC_EP_TABLE_MAX; i++) ep_set_infty(TAB[i]); \
	W(ep_mul_pre_##N(TAB, P[0]); ep_mul_fix_##N(PR[0], (const ep_t *)TAB, B[0])); out_ep(PR[0]); }
EPFIX(basic) EPFIX(combs) EPFIX(combd) EPFIX(lwnaf)
OP(ep_mul_sim_basic) { W(ep_mul_sim_basic(PR[0], P[0], B[0], P[1], B[1])); out_ep(PR[0]); }
OP(ep_mul_sim_trick) { W(ep_mul_sim_trick(PR[0], P[0], B[0], P[1], B[1])); out_ep(PR[0]); }
OP(ep_mul_sim_inter) { W(ep_mul_sim_inter(PR[0], P[0], B[0], P[1], B[1])); out_ep(PR[0]); }
OP(ep_mul_sim_joint) { W(ep_mul_sim_joint(PR[0], P[0], B[0], P[1], B[1])); out_ep(PR[0]); }
OP(ep_mul_sim_gen) { W(ep_mul_sim_gen(PR[0], B[0], P[1], B[1])); out_ep(PR[0]); }
static void sim_lot(int n) {
	ep_t p[NMAX];
	bn_t k[NMAX];
	for (int i = 0; i < NMAX; i++) {
		ep_null(p[i]); bn_null(k[i]); ep_new(p[i]); bn_new(k[i]);
		ep_copy(p[i], P[i % NP]); bn_copy(k[i], B[i % NB]);
		if (i >= NB) bn_add_dig(k[i], k[i], (dig_t)i);
	}
	W(ep_mul_sim_lot(PR[0], (const ep_t *)TAIL(p, n), (const bn_t *)TAIL(k, n), n));
	out_ep(PR[0]);
	for (int i = 0; i < NMAX; i++) { ep_free(p[i]); bn_free(k[i]); }
}
OP(ep_mul_sim_lot0) { sim_lot(0); }
OP(ep_mul_sim_lot1) { sim_lot(1); }
OP(ep_mul_sim_lot2) { sim_lot(2); }
OP(ep_mul_sim_lot5) { sim_lot(5); }
OP(ep_mul_sim_lotn) { sim_lot(cnt); }
OP(ep_mul_sim_dig) {
	ep_t p[NMAX];
	dig_t k[NMAX];
	for (int i = 0; i < NMAX; i++) { ep_null(p[i]); ep_new(p[i]); ep_copy(p[i], P[i % NP]); k[i] = B[i % NB]->dp[0] + (dig_t)i; }
	W(ep_mul_sim_dig(PR[0], (const ep_t *)TAIL(p, cnt), TAIL(k, cnt), cnt));
	out_ep(PR[0]);
	for (int i = 0; i < NMAX; i++) { ep_free(p[i]); }
}
OP(ep_map) { W(ep_map(PR[0], mx(msg_len), msg_len)); out_ep(PR[0]); }
OP(ep_map_basic) { W(ep_map_basic(PR[0], mx(msg_len), msg_len)); out_ep(PR[0]); }
OP(ep_map_swift) { W(ep_map_swift(PR[0], mx(msg_len), msg_len)); out_ep(PR[0]); }
OP(ep_pck_upk) { int r = 0; W(ep_pck(PR[1], P[0]); r = ep_upk(PR[0], PR[1])); out_int(r); out_ep(PR[0]); }
OP(ep_write_bin) {
	size_t l = 0;
	ep_dbl_projc(PR[1], P[0]);
	W(l = ep_size_bin(PR[1], 1); ep_write_bin(buf, l, PR[1], 1));
	out_bytes(buf, l);
}
OP(ep_read_bin) {
	size_t l = ep_size_bin(P[0], 1);
	ep_write_bin(buf, l, P[0], 1);
	W(ep_read_bin(PR[0], buf, l));
	out_ep(PR[0]);
}
OP(ep_rand) { W(ep_rand(PR[0])); out_ep(PR[0]); }
OP(ep_blind) { W(ep_blind(PR[0], P[0])); ep_norm(PR[0], PR[0]); out_ep(PR[0]); }
OP(ep_on_curve) { int r = 0; ep_dbl_projc(PR[1], P[0]); W(r = ep_on_curve(PR[1])); out_int(r); }
OP(ep_tab) {
	ep_t t[1 << (RLC_WIDTH - 2)];
	for (int i = 0; i < (1 << (RLC_WIDTH - 2)); i++) { ep_null(t[i]); ep_new(t[i]); }
	W(ep_tab(t, P[0], RLC_WIDTH));
	for (int i = 0; i < (1 << (RLC_WIDTH - 2)); i++) { out_ep(t[i]); ep_free(t[i]); }
}

/* ---- md / bc / rand ---- */
/* derived keys go into heap blocks of exactly the requested length (1..200 bytes), so that a write past the
 * requested length is visible to the sanitizer */
OP(md_kdf) {
	size_t kl = 1 + (size_t)(B[5]->dp[0] >> 8) % 200;
	uint8_t *o = (uint8_t *)sim_sys_malloc(kl);
	W(md_kdf(o, kl, mx(msg_len), msg_len)); out_bytes(o, kl);
	sim_sys_free(o);
}
OP(md_mgf) {
	size_t kl = 1 + (size_t)(B[5]->dp[0] >> 8) % 200;
	uint8_t *o = (uint8_t *)sim_sys_malloc(kl);
	W(md_mgf(o, kl, mx(msg_len), msg_len)); out_bytes(o, kl);
	sim_sys_free(o);
}
/* key lengths around the hash block size (a longer key is hashed first); key, message and tag in heap blocks of
 * exactly their lengths */
OP(md_hmac) {
	static const size_t kls[10] = { 0, 1, 20, 32, 63, 64, 65, 127, 128, 200 };
	size_t kl = kls[(B[5]->dp[0] >> 16) % 10], ml = (size_t)(B[5]->dp[0] >> 24) % 200;
	uint8_t *k = (uint8_t *)sim_sys_malloc(kl ? kl : 1), *m = (uint8_t *)sim_sys_malloc(ml ? ml : 1), *o = (uint8_t *)sim_sys_malloc(RLC_MD_LEN);
	for (size_t i = 0; i < kl; i++) k[i] = msg[(i * 7) % sizeof(msg)] ^ (uint8_t)i;
	for (size_t i = 0; i < ml; i++) m[i] = msg[(i * 3 + 1) % sizeof(msg)];
	W(md_hmac(o, m, ml, k, kl)); out_bytes(o, RLC_MD_LEN);
	sim_sys_free(k); sim_sys_free(m); sim_sys_free(o);
}
OP(md_xmd) {
	size_t kl = 1 + (size_t)(B[5]->dp[0] >> 8) % 200;
	uint8_t *o = (uint8_t *)sim_sys_malloc(kl);
	W(md_xmd(o, (int)kl, mx(msg_len), (int)msg_len, (const uint8_t *)"DST", 3)); out_bytes(o, kl);
	sim_sys_free(o);
}
OP(bc_aes_cbc) {
	size_t ol = sizeof(buf), ol2 = sizeof(buf2);
	int r = 0, r2 = 0;
	uint8_t key[16], iv[16];
	memset(key, 7, 16); memset(iv, 9, 16);
	W(r = bc_aes_cbc_enc(buf, &ol, mx(msg_len), msg_len, key, 16, iv); if (r == RLC_OK) r2 = bc_aes_cbc_dec(buf2, &ol2, buf, ol, key, 16, iv));
	out_int(r); out_int(r2);
	if (r == RLC_OK && r2 == RLC_OK) out_bytes(buf2, ol2);
}
/* ---- output-capacity faults: functions with an in/out length run once with a large buffer to learn the
 * required size, then with a heap block of exactly need + delta bytes (delta from the plan's cap= field).
 * delta < 0 must be reported (and nothing written beyond the block: sanitizer); delta >= 0 must succeed. ---- */
static long cap_delta = 0;
static int cap_log = 0;
static void cap_note_delta(const char *what, size_t need, long delta, int ok, int same) {
	out_int(delta); out_int(ok); out_int(same);
	if (cap_log) tr_printf("CAP %s need=%zu delta=%ld ok=%d same=%d\n", what, need, delta, ok, same);
}
static void cap_note(const char *what, size_t need, int ok, int same) { cap_note_delta(what, need, cap_delta, ok, same); }
#define CAPRUN(WHAT, NEEDVAR, CALL_BIG, CALL_EXACT) do { \
	size_t ol = sizeof(buf); int r = 0; \
	CALL_BIG; \
	if (r != RLC_OK || err_get_code() != RLC_OK) { out_int(-1); break; } \
	size_t NEEDVAR = ol; \
	long cap = (long)NEEDVAR + cap_delta; if (cap < 0) cap = 0; \
	uint8_t *o = (uint8_t *)sim_sys_malloc((size_t)cap ? (size_t)cap : 1); \
	ol = (size_t)cap; r = 0; \
	int thrown_ = 0; \
	RLC_TRY { CALL_EXACT; } RLC_CATCH_ANY { thrown_ = 1; } \
	int ok_ = (r == RLC_OK && !thrown_ && err_get_code() == RLC_OK); \
	cap_note(WHAT, NEEDVAR, ok_, ok_ && ol == NEEDVAR && (detcmp ? memcmp(o, buf, NEEDVAR) == 0 : 1)); \
	sim_sys_free(o); \
} while (0)
OP(cap_aes_enc) {
	uint8_t key[16], iv[16]; int detcmp = 1;
	memset(key, 7, 16); memset(iv, 9, 16);
	CAPRUN("bc_aes_cbc_enc", need, W(r = bc_aes_cbc_enc(buf, &ol, mx(msg_len), msg_len, key, 16, iv)), W(r = bc_aes_cbc_enc(o, &ol, mx(msg_len), msg_len, key, 16, iv)));
}
OP(cap_aes_dec) {
	uint8_t key[16], iv[16]; int detcmp = 1;
	size_t cl = sizeof(buf2);
	memset(key, 7, 16); memset(iv, 9, 16);
	if (bc_aes_cbc_enc(buf2, &cl, mx(msg_len), msg_len, key, 16, iv) != RLC_OK) { out_int(-2); return; }
	CAPRUN("bc_aes_cbc_dec", need, W(r = bc_aes_cbc_dec(buf, &ol, buf2, cl, key, 16, iv)), W(r = bc_aes_cbc_dec(o, &ol, buf2, cl, key, 16, iv)));
}
OP(cap_rsa_enc) {
	int detcmp = 0;
	size_t ml = 1 + msg_len % 40;
	CAPRUN("cp_rsa_enc", need, W(r = cp_rsa_enc(buf, &ol, mx(ml), ml, rsa_pub)), W(r = cp_rsa_enc(o, &ol, mx(ml), ml, rsa_pub)));
}
OP(cap_rsa_dec) {
	int detcmp = 1;
	size_t ml = 1 + msg_len % 40, cl = sizeof(buf2);
	if (cp_rsa_enc(buf2, &cl, mx(ml), ml, rsa_pub) != RLC_OK) { out_int(-2); return; }
	CAPRUN("cp_rsa_dec", need, W(r = cp_rsa_dec(buf, &ol, buf2, cl, rsa_prv)), W(r = cp_rsa_dec(o, &ol, buf2, cl, rsa_prv)));
}
OP(cap_rsa_sig) {
	int detcmp = 1;
	CAPRUN("cp_rsa_sig", need, W(r = cp_rsa_sig(buf, &ol, mx(msg_len), msg_len, 0, rsa_prv)), W(r = cp_rsa_sig(o, &ol, mx(msg_len), msg_len, 0, rsa_prv)));
}
OP(cap_ecies_enc) {
	int detcmp = 0;
	CAPRUN("cp_ecies_enc", need, W(r = cp_ecies_enc(PR[0], buf, &ol, mx(msg_len), msg_len, ec_q)), W(r = cp_ecies_enc(PR[1], o, &ol, mx(msg_len), msg_len, ec_q)));
}
OP(cap_ecies_dec) {
	int detcmp = 1;
	size_t cl = sizeof(buf2);
	if (cp_ecies_enc(PR[0], buf2, &cl, mx(msg_len), msg_len, ec_q) != RLC_OK) { out_int(-2); return; }
	CAPRUN("cp_ecies_dec", need, W(r = cp_ecies_dec(buf, &ol, PR[0], buf2, cl, ec_d)), W(r = cp_ecies_dec(o, &ol, PR[0], buf2, cl, ec_d)));
}
OP(cap_rabin_enc) {
	int detcmp = 0;
	size_t ml = 1 + msg_len % 24;
	CAPRUN("cp_rabin_enc", need, W(r = cp_rabin_enc(buf, &ol, mx(ml), ml, rab_pub)), W(r = cp_rabin_enc(o, &ol, mx(ml), ml, rab_pub)));
}
OP(cap_rabin_dec) {
	int detcmp = 1;
	size_t ml = 1 + msg_len % 24, cl = sizeof(buf2);
	if (cp_rabin_enc(buf2, &cl, mx(ml), ml, rab_pub) != RLC_OK) { out_int(-2); return; }
	CAPRUN("cp_rabin_dec", need, W(r = cp_rabin_dec(buf, &ol, buf2, cl, rab_prv)), W(r = cp_rabin_dec(o, &ol, buf2, cl, rab_prv)));
}
OP(cap_bdpe_enc) {
	int detcmp = 0;
	dig_t in = (dig_t)(msg[0] % 11);
	CAPRUN("cp_bdpe_enc", need, W(r = cp_bdpe_enc(buf, &ol, in, bd_pub)), W(r = cp_bdpe_enc(o, &ol, in, bd_pub)));
}
OP(cap_ibe_enc) {
	int detcmp = 0;
	size_t ml = 1 + msg_len % 32;
	if (cp_ibe_gen(R[5], G1[3]) != RLC_OK) { out_int(-2); return; }
	CAPRUN("cp_ibe_enc", need, W(r = cp_ibe_enc(buf, &ol, mx(ml), ml, "carol", G1[3])), W(r = cp_ibe_enc(o, &ol, mx(ml), ml, "carol", G1[3])));
}
OP(cap_ibe_dec) {
	int detcmp = 1;
	size_t ml = 1 + msg_len % 32, cl = sizeof(buf2);
	if (cp_ibe_gen(R[5], G1[3]) != RLC_OK || cp_ibe_gen_prv(G2[3], "carol", R[5]) != RLC_OK) { out_int(-2); return; }
	if (cp_ibe_enc(buf2, &cl, mx(ml), ml, "carol", G1[3]) != RLC_OK) { out_int(-3); return; }
	CAPRUN("cp_ibe_dec", need, W(r = cp_ibe_dec(buf, &ol, buf2, cl, G2[3])), W(r = cp_ibe_dec(o, &ol, buf2, cl, G2[3])));
}
/* recodings: the length-in/length-out parameter counts one-byte elements.  The block handed to the second call ends
 * exactly at its capacity (eight bytes of slack in front, so that capacity zero is a pointer to no storage at all). */
#define CAPREC(WHAT, NEED_OF_OL, CALL) do { \
	size_t ol = sizeof(buf); uint8_t *o = buf; \
	memset(buf, 0, sizeof(buf)); \
	CALL; \
	if (err_get_code() != RLC_OK) { out_int(-1); break; } \
	size_t ol_big = ol, need = (size_t)(NEED_OF_OL); \
	long cap = (long)need + cap_delta; if (cap < 0) cap = 0; \
	uint8_t *base_ = (uint8_t *)sim_sys_malloc((size_t)cap + 8); \
	o = base_ + 8; ol = (size_t)cap; \
	int thrown_ = 0; \
	RLC_TRY { CALL; } RLC_CATCH_ANY { thrown_ = 1; } \
	int ok_ = (!thrown_ && err_get_code() == RLC_OK); \
	cap_note_delta(WHAT, need, cap - (long)need, ok_, ok_ && ol == ol_big && memcmp(o, buf, need <= (size_t)cap ? need : (size_t)cap) == 0); \
	sim_sys_free(base_); \
} while (0)
#define REC_W ((size_t)(2 + B[6]->dp[0] % 7))
/* bn_rec_win and bn_rec_reg divide by the width resp. the width minus one: in one instance of sixteen they are handed a
 * width they are not defined for (0 resp. 1) - an invalid parameter is reported, it is not divided by */
#define REC_W_INV(BAD) (((B[6]->dp[0] >> 20) % 16 == 0) ? (size_t)(BAD) : REC_W)
OP(cap_rec_naf) { size_t w = REC_W; CAPREC("bn_rec_naf", ol, W(bn_rec_naf((int8_t *)o, &ol, B[0], w))); }
OP(cap_rec_win) { size_t w = REC_W_INV(0); CAPREC("bn_rec_win", ol, W(bn_rec_win(o, &ol, B[0], w))); }
OP(cap_rec_slw) { size_t w = REC_W; CAPREC("bn_rec_slw", ol, W(bn_rec_slw(o, &ol, B[0], w))); }
OP(cap_rec_reg) {
	size_t w = REC_W_INV(1), n = RLC_MAX(bn_bits(B[0]), 1) + (size_t)((B[6]->dp[0] >> 8) % 3);	/* "a positive integer": a length of zero is outside the documented domain */
	/* a recoding length shorter than the integer (a quarter of the instances): the integer does not fit, which must be
	 * reported or recoded short - not copied beyond the scratch storage that was sized from n */
	if ((B[6]->dp[0] >> 14) % 4 == 0) n = RLC_MAX(n >> (1 + (B[6]->dp[0] >> 16) % 4), 1);
	CAPREC("bn_rec_reg", ol, W(bn_rec_reg((int8_t *)o, &ol, B[0], n, w)));
}
/* the joint sparse form is written as two rows at a distance of max(bits) + 1: the storage it needs ends with the
 * last column of the second row */
OP(cap_rec_jsf) {
	shorter_second();
	const bn_st *k = ((B[6]->dp[0] >> 5) & 1) ? R[3] : B[0], *l = ((B[6]->dp[0] >> 5) & 1) ? B[0] : R[3];
	size_t off = RLC_MAX(bn_bits(k), bn_bits(l)) + 1;
	CAPREC("bn_rec_jsf", off + ol, W(bn_rec_jsf((int8_t *)o, &ol, k, l)));
}
/* tau-adic recodings for Koblitz curves (u = +-1 is the curve parameter, m the field degree) */
OP(cap_rec_tnaf) {
	size_t w = REC_W; int8_t u = ((B[6]->dp[0] >> 9) & 1) ? 1 : -1; size_t m = ((B[6]->dp[0] >> 10) & 1) ? 283 : 233;
	CAPREC("bn_rec_tnaf", ol, W(bn_rec_tnaf((int8_t *)o, &ol, B[0], u, m, w)));
}
/* the regular form is defined for scalars whose two reduced components are odd (the test suite draws scalars until
 * they are): in half of the instances the operand is stepped to the next such value */
OP(cap_rec_rtnaf) {
	size_t w = REC_W; int8_t u = ((B[6]->dp[0] >> 9) & 1) ? 1 : -1; size_t m = ((B[6]->dp[0] >> 10) & 1) ? 283 : 233;
	int ok = 0;
	bn_abs(R[1], B[0]);
	if (bn_bits(R[1]) + 8 > (size_t)RLC_BN_BITS) bn_rsh(R[1], R[1], 16);
	if ((B[6]->dp[0] >> 11) & 1) {
		for (int i = 0; i < 16 && !ok; i++) {
			bn_add_dig(R[1], R[1], 1);
			bn_rec_tnaf_mod(R[2], R[3], R[1], u, m);
			ok = !bn_is_even(R[2]) && !bn_is_even(R[3]);
		}
		if (!ok) { out_int(-4); return; }
	} else if ((B[6]->dp[0] >> 13) & 1) {
		w = 8;	/* whatever parity the components have - to be refused, not recoded with digits outside the tables (widest window: largest digits) */
	}
	CAPREC("bn_rec_rtnaf", ol, W(bn_rec_rtnaf((int8_t *)o, &ol, R[1], u, m, w)));
}
OP(rand_reseed) { W(rand_seed(mx(msg_len), msg_len); rand_bytes(buf, 40)); out_bytes(buf, 40); }

/* ---- mpc ---- */
OP(mpc_sss) {
	bn_t x[NMAX], y[NMAX], n;
	int r1 = 0, r2 = 0;
	size_t k = (size_t)(cnt % 7), nn = k + (size_t)(cnt / 7);
	if (cnt == 3) { k = 3; nn = 4; }
	bn_null(n); bn_new(n);
	ep_curve_get_ord(n);
	for (int i = 0; i < NMAX; i++) { bn_null(x[i]); bn_null(y[i]); bn_new(x[i]); bn_new(y[i]); bn_zero(x[i]); bn_zero(y[i]); }
	bn_mod(R[1], B[0], n);
	bn_zero(R[0]);
	W(r1 = mpc_sss_gen(x, y, R[1], n, k, nn); if (r1 == RLC_OK) r2 = mpc_sss_key(R[0], (const bn_t *)x, (const bn_t *)y, n, k));
	out_int(r1); out_int(r2); out_bn(R[0]);
	for (int i = 0; i < NMAX; i++) { bn_free(x[i]); bn_free(y[i]); }
	bn_free(n);
}
OP(mpc_mt) {
	mt_t tri[2];
	bn_t n, d[2], e[2], x[2], y[2];
	bn_null(n); bn_new(n);
	ep_curve_get_ord(n);
	for (int i = 0; i < 2; i++) {
		mt_null(tri[i]); mt_new(tri[i]);
		bn_null(d[i]); bn_null(e[i]); bn_null(x[i]); bn_null(y[i]);
		bn_new(d[i]); bn_new(e[i]); bn_new(x[i]); bn_new(y[i]);
		bn_mod(x[i], B[i], n); bn_mod(y[i], B[2 + i], n);
	}
	W(mpc_mt_gen(tri, n);
		mpc_mt_lcl(d[0], e[0], x[0], y[0], n, tri[0]); mpc_mt_lcl(d[1], e[1], x[1], y[1], n, tri[1]);
		mpc_mt_bct(d, e, n);
		mpc_mt_mul(R[0], d[0], e[0], n, tri[0], 0); mpc_mt_mul(R[1], d[1], e[1], n, tri[1], 1));
	bn_add(R[0], R[0], R[1]); bn_mod(R[0], R[0], n);
	out_bn(R[0]);
	for (int i = 0; i < 2; i++) { mt_free(tri[i]); bn_free(d[i]); bn_free(e[i]); bn_free(x[i]); bn_free(y[i]); }
	bn_free(n);
}

/* ---- cp (keys from boot) ---- */
OP(cp_rsa_enc_dec) {
	size_t ol = sizeof(buf), ol2 = sizeof(buf2);
	int r = 0, r2 = 0;
	size_t ml = msg_len % 40;
	W(r = cp_rsa_enc(buf, &ol, mx(ml), ml, rsa_pub); if (r == RLC_OK) r2 = cp_rsa_dec(buf2, &ol2, buf, ol, rsa_prv));
	out_int(r); out_int(r2);
	if (r == RLC_OK && r2 == RLC_OK) out_bytes(buf2, ol2);
}
OP(cp_rsa_sig_ver) {
	size_t ol = sizeof(buf);
	int r = 0, r2 = 0;
	W(r = cp_rsa_sig(buf, &ol, mx(msg_len), msg_len, 0, rsa_prv); if (r == RLC_OK) r2 = cp_rsa_ver(buf, ol, mx(msg_len), msg_len, 0, rsa_pub));
	out_int(r); out_int(r2);
}
OP(cp_rsa_gen_small) {
	rsa_t pub, prv;
	int r = 0;
	rsa_null(pub); rsa_null(prv);
	rsa_new(pub); rsa_new(prv);
	W(r = cp_rsa_gen(pub, prv, 256));
	out_int(r);
	if (r == RLC_OK) out_bn(pub->crt->n);
	rsa_free(pub); rsa_free(prv);
}
OP(cp_phpe) {
	int r = 0, r2 = 0, r3 = 0;
	bn_mod(R[3], B[0], ph_pub);
	W(r = cp_phpe_enc(R[0], R[3], ph_pub); if (r == RLC_OK) r2 = cp_phpe_add(R[1], R[0], R[0], ph_pub);
		if (r2 == RLC_OK) r3 = cp_phpe_dec(R[2], R[1], ph_prv));
	out_int(r); out_int(r2); out_int(r3); out_bn(R[2]);
}
OP(cp_ecdsa) {
	int r = 0, v = 0;
	W(r = cp_ecdsa_sig(R[0], R[1], mx(msg_len), msg_len, 0, ec_d); if (r == RLC_OK) v = cp_ecdsa_ver(R[0], R[1], mx(msg_len), msg_len, 0, ec_q));
	out_int(r); out_int(v);
}
OP(cp_ecdsa_gen) {
	ec_t q;
	int r = 0;
	ec_null(q); ec_new(q);
	W(r = cp_ecdsa_gen(R[0], q));
	out_int(r); out_bn(R[0]); out_ep(q);
	ec_free(q);
}
OP(cp_ecss) {
	int r = 0, v = 0;
	W(r = cp_ecss_sig(R[0], R[1], mx(msg_len), msg_len, ec_d); if (r == RLC_OK) v = cp_ecss_ver(R[0], R[1], mx(msg_len), msg_len, ec_q));
	out_int(r); out_int(v);
}
OP(cp_ecdh) {
	int r = 0;
	memset(buf, 0, 32);
	W(r = cp_ecdh_key(buf, 32, ec_d, P[0]));
	out_int(r); out_bytes(buf, 32);
}
OP(cp_ecmqv) {
	int r = 0;
	memset(buf, 0, 32);
	W(r = cp_ecmqv_key(buf, 32, ec_d, B[7], ec_q, P[0], P[1]));
	out_int(r); out_bytes(buf, 32);
}
OP(cp_ecies) {
	size_t ol = sizeof(buf), ol2 = sizeof(buf2);
	int r = 0, r2 = 0;
	W(r = cp_ecies_enc(PR[0], buf, &ol, mx(msg_len), msg_len, ec_q); if (r == RLC_OK) r2 = cp_ecies_dec(buf2, &ol2, PR[0], buf, ol, ec_d));
	out_int(r); out_int(r2);
	if (r == RLC_OK && r2 == RLC_OK) out_bytes(buf2, ol2);
}
OP(cp_vbnn) {
	bn_t sk, z, h;
	ec_t pk, r, mpk;
	int r1 = 0, r2 = 0, r3 = 0;
	bn_null(sk); bn_null(z); bn_null(h); ec_null(pk); ec_null(r); ec_null(mpk);
	bn_new(sk); bn_new(z); bn_new(h); ec_new(pk); ec_new(r); ec_new(mpk);
	ec_mul_gen(mpk, ec_d);
	W(r1 = cp_vbnn_gen_prv(sk, pk, ec_d, (const uint8_t *)"alice", 5);
		if (r1 == RLC_OK) r2 = cp_vbnn_sig(r, z, h, (const uint8_t *)"alice", 5, mx(msg_len), msg_len, sk, pk);
		if (r2 == RLC_OK) r3 = cp_vbnn_ver(r, z, h, (const uint8_t *)"alice", 5, mx(msg_len), msg_len, mpk));
	out_int(r1); out_int(r2); out_int(r3);
	bn_free(sk); bn_free(z); bn_free(h); ec_free(pk); ec_free(r); ec_free(mpk);
}
OP(cp_pokdl) {
	int r = 0, v = 0;
	ec_mul_gen(PR[0], ec_d);
	W(r = cp_pokdl_prv(R[0], R[1], PR[0], ec_d); if (r == RLC_OK) v = cp_pokdl_ver(R[0], R[1], PR[0]));
	out_int(r); out_int(v);
}
/* the statement whose witness is zero (y = identity): a legitimate, if degenerate, statement - its proof must be a
 * function of the inputs and the generator only, and must verify */
OP(cp_pokdl_zero) {
	int r = 0, v = 0;
	bn_zero(R[2]);
	ec_set_infty(PR[0]);
	W(r = cp_pokdl_prv(R[0], R[1], PR[0], R[2]); if (r == RLC_OK) v = cp_pokdl_ver(R[0], R[1], PR[0]));
	out_int(r); out_int(v); out_bn(R[0]);
}
OP(cp_sokdl_zero) {
	int r = 0, v = 0;
	static const uint8_t msg_[5] = { 1, 2, 3, 4, 5 };
	bn_zero(R[2]);
	ec_set_infty(PR[0]);
	W(r = cp_sokdl_sig(R[0], R[1], msg_, sizeof(msg_), PR[0], R[2]); if (r == RLC_OK) v = cp_sokdl_ver(R[0], R[1], msg_, sizeof(msg_), PR[0]));
	out_int(r); out_int(v); out_bn(R[0]);
}
OP(cp_ped_com) { int r = 0; W(r = cp_ped_com(PR[0], P[0], B[0], B[1])); out_int(r); out_ep(PR[0]); }

/* ---- pairing-based ---- */
OP(g1_mul) { W(g1_mul(G1[3], G1[0], B[0])); out_ep(G1[3]); }
OP(g1_mul_gen) { W(g1_mul_gen(G1[3], B[0])); out_ep(G1[3]); }
OP(g2_mul) { W(g2_mul(G2[3], G2[0], B[0])); out_g2(G2[3]); }
OP(g2_mul_gen) { W(g2_mul_gen(G2[3], B[0])); out_g2(G2[3]); }
OP(g2_add) { W(g2_add(G2[3], G2[0], G2[1])); g2_norm(G2[3], G2[3]); out_g2(G2[3]); }
OP(g2_mul_sim) { W(g2_mul_sim(G2[3], G2[0], B[0], G2[1], B[1])); out_g2(G2[3]); }
OP(gt_exp) { W(gt_exp(GT[3], GT[0], B[0])); out_gt(GT[3]); }
OP(gt_exp_gen) { W(gt_exp_gen(GT[3], B[0])); out_gt(GT[3]); }
OP(gt_inv_mul) { W(gt_inv(GT[3], GT[0]); gt_mul(GT[3], GT[3], GT[1])); out_gt(GT[3]); }
OP(pc_map) { W(pc_map(GT[3], G1[0], G2[0])); out_gt(GT[3]); }
OP(pc_map_sim2) {
	g1_t p[2]; g2_t q[2];
	for (int i = 0; i < 2; i++) { g1_null(p[i]); g2_null(q[i]); g1_new(p[i]); g2_new(q[i]); g1_copy(p[i], G1[i]); g2_copy(q[i], G2[i]); }
	W(pc_map_sim(GT[3], (const g1_t *)p, (const g2_t *)q, 2));
	out_gt(GT[3]);
	for (int i = 0; i < 2; i++) { g1_free(p[i]); g2_free(q[i]); }
}
OP(pc_map_simn) {
	g1_t p[NMAX]; g2_t q[NMAX];
	int m = cnt % 6;
	for (int i = 0; i < NMAX; i++) { g1_null(p[i]); g2_null(q[i]); g1_new(p[i]); g2_new(q[i]); g1_copy(p[i], G1[i % 4]); g2_copy(q[i], G2[(i + 1) % 4]); }
	if (m >= 3 && (cnt & 1)) g1_set_infty(TAIL(p, m)[1]);
	W(pc_map_sim(GT[3], (const g1_t *)TAIL(p, m), (const g2_t *)TAIL(q, m), m));
	out_gt(GT[3]);
	for (int i = 0; i < NMAX; i++) { g1_free(p[i]); g2_free(q[i]); }
}
OP(g1_mul_sim_lot) {
	g1_t p[NMAX]; bn_t k[NMAX];
	for (int i = 0; i < NMAX; i++) { g1_null(p[i]); bn_null(k[i]); g1_new(p[i]); bn_new(k[i]); g1_copy(p[i], G1[i % 4]); bn_copy(k[i], B[i % NB]); bn_add_dig(k[i], k[i], (dig_t)i); }
	W(g1_mul_sim_lot(G1[3], (const g1_t *)TAIL(p, cnt), (const bn_t *)TAIL(k, cnt), cnt));
	out_ep(G1[3]);
	for (int i = 0; i < NMAX; i++) { g1_free(p[i]); bn_free(k[i]); }
}
OP(g2_mul_sim_lot) {
	g2_t p[NMAX]; bn_t k[NMAX];
	for (int i = 0; i < NMAX; i++) { g2_null(p[i]); bn_null(k[i]); g2_new(p[i]); bn_new(k[i]); g2_copy(p[i], G2[i % 4]); bn_copy(k[i], B[i % NB]); bn_add_dig(k[i], k[i], (dig_t)i); }
	W(g2_mul_sim_lot(G2[3], (const g2_t *)TAIL(p, cnt), (const bn_t *)TAIL(k, cnt), (size_t)cnt));
	out_g2(G2[3]);
	for (int i = 0; i < NMAX; i++) { g2_free(p[i]); bn_free(k[i]); }
}
OP(ep2_mul_sim_dig) {
	g2_t p[NMAX]; dig_t k[NMAX];
	for (int i = 0; i < NMAX; i++) { g2_null(p[i]); g2_new(p[i]); g2_copy(p[i], G2[i % 4]); k[i] = B[i % NB]->dp[0] + (dig_t)i; }
	W(ep2_mul_sim_dig(G2[3], (const ep2_t *)TAIL(p, cnt), TAIL(k, cnt), (size_t)cnt));
	out_g2(G2[3]);
	for (int i = 0; i < NMAX; i++) { g2_free(p[i]); }
}
OP(ep2_norm_sim) {
	g2_t t[NMAX], r[NMAX];
	for (int i = 0; i < NMAX; i++) { g2_null(t[i]); g2_null(r[i]); g2_new(t[i]); g2_new(r[i]); g2_dbl(t[i], G2[i % 4]); g2_set_infty(r[i]); }
	W(ep2_norm_sim(TAIL(r, cnt), (const ep2_t *)TAIL(t, cnt), cnt));
	for (int i = 0; i < cnt; i++) { out_g2(TAIL(r, cnt)[i]); }
	for (int i = 0; i < NMAX; i++) { g2_free(t[i]); g2_free(r[i]); }
}
OP(g1_map) { W(g1_map(G1[3], mx(msg_len), msg_len)); out_ep(G1[3]); }
OP(g2_map) { W(g2_map(G2[3], mx(msg_len), msg_len)); out_g2(G2[3]); }
OP(g1_is_valid) { int r = 0; W(r = g1_is_valid(G1[0])); out_int(r); }
OP(g2_is_valid) { int r = 0; W(r = g2_is_valid(G2[0])); out_int(r); }
OP(gt_is_valid) { int r = 0; W(r = gt_is_valid(GT[0])); out_int(r); }
OP(g2_write_read) {
	size_t l = 0;
	W(l = g2_size_bin(G2[0], 1); g2_write_bin(buf, l, G2[0], 1); g2_read_bin(G2[3], buf, l));
	out_g2(G2[3]);
}
OP(gt_write_read) {
	size_t l = 0;
	W(l = gt_size_bin(GT[0], 1); gt_write_bin(buf, l, GT[0], 1); gt_read_bin(GT[3], buf, l));
	out_gt(GT[3]);
}
OP(cp_bls) {
	int r = 0, v = 0;
	W(r = cp_bls_sig(G1[3], mx(msg_len), msg_len, bls_d); if (r == RLC_OK) v = cp_bls_ver(G1[3], mx(msg_len), msg_len, bls_q));
	out_int(r); out_int(v);
}
OP(cp_bls_gen) {
	int r = 0;
	W(r = cp_bls_gen(R[0], G2[3]));
	out_int(r); out_bn(R[0]); out_g2(G2[3]);
}
OP(cp_bbs) {
	int r = 0, r2 = 0, v = 0;
	W(r = cp_bbs_gen(R[0], G2[3], GT[3]); if (r == RLC_OK) r2 = cp_bbs_sig(G1[3], mx(msg_len), msg_len, 0, R[0]);
		if (r2 == RLC_OK) v = cp_bbs_ver(G1[3], mx(msg_len), msg_len, 0, G2[3], GT[3]));
	out_int(r); out_int(r2); out_int(v);
}
OP(cp_zss) {
	int r = 0, r2 = 0, v = 0;
	W(r = cp_zss_gen(R[0], G1[3], GT[3]); if (r == RLC_OK) r2 = cp_zss_sig(G2[3], mx(msg_len), msg_len, 0, R[0]);
		if (r2 == RLC_OK) v = cp_zss_ver(G2[3], mx(msg_len), msg_len, 0, G1[3], GT[3]));
	out_int(r); out_int(r2); out_int(v);
}
OP(cp_cls) {
	int r = 0, r2 = 0, v = 0;
	W(r = cp_cls_gen(R[0], R[1], G2[2], G2[3]); if (r == RLC_OK) r2 = cp_cls_sig(G1[1], G1[2], G1[3], mx(msg_len), msg_len, R[0], R[1]);
		if (r2 == RLC_OK) v = cp_cls_ver(G1[1], G1[2], G1[3], mx(msg_len), msg_len, G2[2], G2[3]));
	out_int(r); out_int(r2); out_int(v);
}
OP(cp_pss) {
	int r = 0, r2 = 0, v = 0;
	bn_t n;
	bn_null(n); bn_new(n);
	pc_get_ord(n);
	bn_mod(R[3], B[0], n);
	W(r = cp_pss_gen(R[0], R[1], G2[1], G2[2], G2[3]); if (r == RLC_OK) r2 = cp_pss_sig(G1[2], G1[3], R[3], R[0], R[1]);
		if (r2 == RLC_OK) v = cp_pss_ver(G1[2], G1[3], R[3], G2[1], G2[2], G2[3]));
	out_int(r); out_int(r2); out_int(v);
	bn_free(n);
}
OP(cp_ibe) {
	size_t ol = sizeof(buf), ol2 = sizeof(buf2);
	int r = 0, r2 = 0, r3 = 0, r4 = 0;
	size_t ml = msg_len % 60 + 1;
	W(r = cp_ibe_gen(R[0], G1[3]); if (r == RLC_OK) r2 = cp_ibe_gen_prv(G2[3], "bob", R[0]);
		if (r2 == RLC_OK) r3 = cp_ibe_enc(buf, &ol, mx(ml), ml, "bob", G1[3]);
		if (r3 == RLC_OK) r4 = cp_ibe_dec(buf2, &ol2, buf, ol, G2[3]));
	out_int(r); out_int(r2); out_int(r3); out_int(r4);
	if (r4 == RLC_OK && r3 == RLC_OK && r2 == RLC_OK && r == RLC_OK) out_bytes(buf2, ol2);
}
OP(cp_sokaka) {
	sokaka_t k;
	int r = 0, r2 = 0;
	sokaka_null(k); sokaka_new(k);
	memset(buf, 0, 32);
	W(r = cp_sokaka_gen_prv(k, "alice", B[0]); if (r == RLC_OK) r2 = cp_sokaka_key(buf, 32, "alice", k, "bob"));
	out_int(r); out_int(r2); out_bytes(buf, 32);
	sokaka_free(k);
}
OP(cp_pdpub) {
	int r1 = 0, r2 = 0, r3 = 0, r4 = 0;
	gt_t g[3];
	for (int i = 0; i < 3; i++) { gt_null(g[i]); gt_new(g[i]); }
	W(r1 = cp_pdpub_gen(R[0], R[1], G1[2], G2[2], G2[3], GT[2]);
		if (r1 == RLC_OK) r2 = cp_pdpub_ask(G1[3], G2[1], G1[0], G2[0], R[0], R[1], G1[2], G2[2], G2[3]);
		if (r2 == RLC_OK) r3 = cp_pdpub_ans(g, G1[0], G2[0], G1[3], G2[3], G2[1]);
		if (r3 == RLC_OK) r4 = cp_pdpub_ver(GT[3], (const gt_t *)g, R[0], GT[2]));
	out_int(r1); out_int(r2); out_int(r3); out_int(r4);
	for (int i = 0; i < 3; i++) { gt_free(g[i]); }
}
OP(pc_param_set_any) { int r = 0; W(r = pc_param_set_any()); out_int(r); ep_curve_get_gen(PR[0]); out_ep(PR[0]); }
/* selection of another parameter set (possibly interrupted by an allocation failure), then - in run_op, outside
 * the fault window - the plan's curve is selected again: the fixed probe must give its reference output, i.e. a
 * failed or completed selection leaves nothing behind that survives the next successful one */
static int cycle_pending = 0;
OP(ep_param_cycle) {
	static const int ids[6] = { NIST_P256, BSI_P256, SM2_P256, SECG_K256, BN_P256, SM9_P256 };
	int other = ids[B[6]->dp[0] % 6], r = 0;
	cycle_pending = 1;
	W(ep_param_set(other); if (err_get_code() == RLC_OK && other == BN_P256 && (B[6]->dp[0] & 64)) r = pc_param_set_any());
	out_int(other); out_int(r);
	ep_curve_get_gen(PR[0]); out_ep(PR[0]);
	ep_mul_gen(PR[1], B[7]); out_ep(PR[1]);
}

#define E(N, PC) { #N, op_##N, PC }
static const op_t ops[] = {
	E(bn_add, 0), E(bn_sub, 0), E(bn_mul_basic, 0), E(bn_mul_comba, 0), E(bn_mul_karat, 0), E(bn_sqr_basic, 0),
	E(bn_sqr_comba, 0), E(bn_sqr_karat, 0), E(bn_lsh, 0), E(bn_grow_add, 0), E(bn_grow_add_dig, 0), E(bn_grow_mul_dig, 0),
	E(bn_grow_dbl, 0), E(bn_grow_sub_neg, 0), E(bn_grow_lsh_inplace, 0), E(bn_grow_add_inplace, 0), E(bn_cap_set_bit, 0), E(bn_cap_rand, 0), E(bn_cap_read_bin, 0), E(bn_cap_copy_lsh, 0), E(bn_div_rem, 0), E(bn_div, 0), E(bn_mod_basic, 0),
	E(bn_mod_barrt, 0), E(bn_mod_monty, 0), E(bn_mod_inv, 0), E(bn_mxp_basic, 0), E(bn_mxp_slide, 0),
	E(bn_mxp_monty, 0), E(bn_mxp_dig, 0), E(bn_mxp_sim, 0), E(bn_srt, 0), E(bn_gcd_basic, 0), E(bn_gcd_lehme, 0),
	E(bn_gcd_binar, 0), E(bn_gcd_ext_basic, 0), E(bn_gcd_ext_lehme, 0), E(bn_gcd_ext_binar, 0), E(bn_gcd_ext_mid, 0), E(bn_gcd_swapped, 0),
	E(bn_lcm, 0), E(bn_smb_leg, 0), E(bn_smb_jac, 0), E(bn_is_prime, 0), E(bn_is_prime_solov, 0),
	E(bn_set_bit_above, 0), E(bn_cap_read_raw, 0), E(bn_gen_prime_small, 0), E(bn_factor, 0), E(bn_rec_naf, 0), E(bn_rec_win, 0), E(bn_rec_slw, 0), E(bn_rec_reg, 0),
	E(bn_rec_jsf, 0), E(bn_rec_glv, 0), E(bn_read_str, 0), E(bn_write_str, 0), E(bn_read_bin, 0), E(bn_lag, 0),
	E(bn_evl, 0), E(bn_rand_mod, 0), E(bn_mod_inv_sim, 0), E(bn_mxp_sim_lot, 0),
	E(fp_mul, 0), E(fp_sqr, 0), E(fp_shift, 0), E(fp_inv_basic, 0), E(fp_inv_binar, 0), E(fp_inv_monty, 0), E(fp_inv_exgcd, 0),
	E(fp_inv_divst, 0), E(fp_inv_jmpds, 0), E(fp_inv_lower, 0), E(fp_inv_sim, 0), E(fp2_inv_sim, 0), E(fp_exp_basic, 0),
	E(fp_exp_slide, 0), E(fp_exp_monty, 0), E(fp_srt, 0), E(fp_smb, 0), E(fp_prime_conv, 0), E(fp_prime_back, 0),
	E(fp_write_str, 0), E(fp_read_str, 0), E(fp_read_bin, 0), E(fp2_inv, 0), E(fp2_srt, 0), E(fp2_mul, 0),
	E(ep_add_basic, 0), E(ep_add_projc, 0), E(ep_add_jacob, 0), E(ep_dbl_basic, 0), E(ep_dbl_projc, 0),
	E(ep_dbl_jacob, 0), E(ep_norm, 0), E(ep_norm_sim, 0), E(ep_mul_basic, 0), E(ep_mul_slide, 0), E(ep_mul_monty, 0),
	E(ep_mul_lwnaf, 0), E(ep_mul_lwreg, 0), E(ep_mul_gen, 0), E(ep_mul_dig, 0), E(ep_mul_cof, 0),
	E(ep_mul_fix_basic, 0), E(ep_mul_fix_combs, 0), E(ep_mul_fix_combd, 0), E(ep_mul_fix_lwnaf, 0),
	E(ep_mul_sim_basic, 0), E(ep_mul_sim_trick, 0), E(ep_mul_sim_inter, 0), E(ep_mul_sim_joint, 0),
	E(ep_mul_sim_gen, 0), E(ep_mul_sim_lot0, 0), E(ep_mul_sim_lot1, 0), E(ep_mul_sim_lot2, 0), E(ep_mul_sim_lot5, 0), E(ep_mul_sim_lotn, 0),
	E(ep_mul_sim_dig, 0), E(ep_map, 0), E(ep_map_basic, 0), E(ep_map_swift, 0), E(ep_pck_upk, 0), E(ep_write_bin, 0),
	E(ep_read_bin, 0), E(ep_rand, 0), E(ep_blind, 0), E(ep_on_curve, 0), E(ep_tab, 0),
	E(md_kdf, 0), E(md_mgf, 0), E(md_hmac, 0), E(md_xmd, 0), E(bc_aes_cbc, 0), E(rand_reseed, 0), E(cap_aes_enc, 0), E(cap_aes_dec, 0), E(cap_rsa_enc, 0), E(cap_rsa_dec, 0),
	E(cap_rsa_sig, 0), E(cap_ecies_enc, 0), E(cap_ecies_dec, 0),
	E(cap_rec_naf, 0), E(cap_rec_win, 0), E(cap_rec_slw, 0), E(cap_rec_reg, 0), E(cap_rec_jsf, 0), E(cap_rec_tnaf, 0), E(cap_rec_rtnaf, 0),
	E(cap_rabin_enc, 0), E(cap_rabin_dec, 0), E(cap_bdpe_enc, 0), E(cap_ibe_enc, 1), E(cap_ibe_dec, 1),
	E(mpc_sss, 0), E(mpc_mt, 0),
	E(cp_rsa_enc_dec, 0), E(cp_rsa_sig_ver, 0), E(cp_rsa_gen_small, 0), E(cp_phpe, 0), E(cp_ecdsa, 0),
	E(cp_ecdsa_gen, 0), E(cp_ecss, 0), E(cp_ecdh, 0), E(cp_ecmqv, 0), E(cp_ecies, 0), E(cp_vbnn, 0), E(cp_pokdl, 0), E(cp_pokdl_zero, 0), E(cp_sokdl_zero, 0),
	E(cp_ped_com, 0),
	E(g1_mul, 1), E(g1_mul_gen, 1), E(g2_mul, 1), E(g2_mul_gen, 1), E(g2_add, 1), E(g2_mul_sim, 1), E(gt_exp, 1),
	E(gt_exp_gen, 1), E(gt_inv_mul, 1), E(pc_map, 1), E(pc_map_sim2, 1), E(pc_map_simn, 1), E(g1_mul_sim_lot, 1), E(g2_mul_sim_lot, 1), E(ep2_norm_sim, 1), E(ep2_mul_sim_dig, 1), E(g1_map, 1), E(g2_map, 1),
	E(g1_is_valid, 1), E(g2_is_valid, 1), E(gt_is_valid, 1), E(g2_write_read, 1), E(gt_write_read, 1),
	E(cp_bls, 1), E(cp_bls_gen, 1), E(cp_bbs, 1), E(cp_zss, 1), E(cp_cls, 1), E(cp_pss, 1), E(cp_ibe, 1),
	E(cp_sokaka, 1), E(cp_pdpub, 1), E(pc_param_set_any, 1), E(ep_param_cycle, 0),
};
#define NOPS ((int)(sizeof(ops) / sizeof(ops[0])))

/*============================================================================*/
/* Harness                                                                    */
/*============================================================================*/

static uint8_t probe_ref[256];
static size_t probe_ref_len;

/* Fixed usability probe: fixed-base multiplication, inversion, hashing, one signature. */
static size_t usability_probe(uint8_t *dst) {
	size_t l = 0;
	bn_t k;
	ep_t p;
	fp_t a;
	bn_null(k); ep_null(p); fp_null(a);
	RLC_TRY {
		bn_new(k); ep_new(p); fp_new(a);
		bn_set_dig(k, 0xABCDEF);
		bn_lsh(k, k, 90);
		bn_add_dig(k, k, 17);
		ep_mul_gen(p, k);
		ep_write_bin(dst, 2 * RLC_FP_BYTES + 1, p, 0);
		l = 2 * RLC_FP_BYTES + 1;
		fp_set_dig(a, 12345);
		fp_inv(a, a);
		fp_write_bin(dst + l, RLC_FP_BYTES, a);
		l += RLC_FP_BYTES;
		md_map(dst + l, (const uint8_t *)"probe", 5);
		l += RLC_MD_LEN;
	} RLC_CATCH_ANY {
		dst[0] = 0xEE;
		l = 1;
	} RLC_FINALLY {
		bn_free(k); ep_free(p); fp_free(a);
	}
	return l;
}

static int set_curve(const char *name) {
	int id = -1, pc = 0;
	if (!strcmp(name, "NIST_P256")) id = NIST_P256;
	else if (!strcmp(name, "BSI_P256")) id = BSI_P256;
	else if (!strcmp(name, "SM2_P256")) id = SM2_P256;
	else if (!strcmp(name, "SECG_K256")) id = SECG_K256;
	else if (!strcmp(name, "BN_P256")) { id = BN_P256; pc = 1; }
	else if (!strcmp(name, "SM9_P256")) { id = SM9_P256; pc = 0; }
	if (id < 0) return -1;
	if (id == cur_curve) return 0;
	ep_param_set(id);
	if (pc) {
		pc_param_set_any();
	}
	has_pc = pc;
	cur_curve = id;
	(void)err_get_code();
	/* keys that live on the curve: drawn from a fixed generator state, so that they do not depend on
	 * what this executor ran before */
	{
		uint8_t ks[16];
		memset(ks, 0x4B, sizeof(ks));
		ks[0] = (uint8_t)id;
		sim_reseed_fresh(ks, sizeof(ks));
	}
	cp_ecdsa_gen(ec_d, ec_q);
	if (has_pc) cp_bls_gen(bls_d, bls_q);
	probe_ref_len = usability_probe(probe_ref);
	return 0;
}

static void engine_boot(void) {
	uint8_t seed[64];
	memset(seed, 0x3C, sizeof(seed));
	sim_dev_reset(&sim_dev_main, seed, sizeof(seed), 5);
	if (core_init() != RLC_OK) _exit(4);
	sim_reseed_fresh(seed, sizeof(seed));
	for (int i = 0; i < NB; i++) { bn_null(B[i]); bn_null(R[i]); bn_new(B[i]); bn_new(R[i]); }
	for (int i = 0; i < 4; i++) { fp_null(F[i]); fp_null(FR[i]); fp_new(F[i]); fp_new(FR[i]); }
	for (int i = 0; i < NP; i++) { ep_null(P[i]); ep_null(PR[i]); ep_new(P[i]); ep_new(PR[i]); }
	TAB = (ep_t *)sim_sys_malloc(sizeof(ep_t) * RLC_EP_TABLE_MAX);
	for (int i = 0; i < RLC_EP_TABLE_MAX; i++) { ep_null(TAB[i]); ep_new(TAB[i]); }
	for (int i = 0; i < 4; i++) {
		g1_null(G1[i]); g2_null(G2[i]); gt_null(GT[i]);
		g1_new(G1[i]); g2_new(G2[i]); gt_new(GT[i]);
	}
	bn_null(ec_d); bn_new(ec_d); ec_null(ec_q); ec_new(ec_q);
	bn_null(bls_d); bn_new(bls_d); g2_null(bls_q); g2_new(bls_q);
	rsa_null(rsa_pub); rsa_null(rsa_prv); rsa_new(rsa_pub); rsa_new(rsa_prv);
	bn_null(ph_pub); bn_new(ph_pub); phpe_null(ph_prv); phpe_new(ph_prv);
	rabin_null(rab_pub); rabin_null(rab_prv); rabin_new(rab_pub); rabin_new(rab_prv);
	bdpe_null(bd_pub); bdpe_null(bd_prv); bdpe_new(bd_pub); bdpe_new(bd_prv);
}

/* Long-lived keys are generated on first use, outside any fault window (a restart after a
 * sanitizer abort should cost as little as possible). */
static void need_keys(void) {
	if (have_keys) return;
	{
		uint8_t ks[16];
		memset(ks, 0x52, sizeof(ks));
		sim_reseed_fresh(ks, sizeof(ks));
	}
	if (cp_rsa_gen(rsa_pub, rsa_prv, 768) != RLC_OK) _exit(6);
	if (cp_phpe_gen(ph_pub, ph_prv, 512) != RLC_OK) _exit(7);
	have_keys = 1;
}

static void need_keys2(void) {
	if (have_keys2) return;
	{
		uint8_t ks[16];
		memset(ks, 0x53, sizeof(ks));
		sim_reseed_fresh(ks, sizeof(ks));
	}
	if (cp_rabin_gen(rab_pub, rab_prv, 512) != RLC_OK) _exit(8);
	if (cp_bdpe_gen(bd_pub, bd_prv, 11, 512) != RLC_OK) _exit(9);
	have_keys2 = 1;
}

static void need_keys(void);
static void run_op(const op_t *op, const uint8_t *seed, size_t seed_len, uint64_t fill, long fail1, long fail2,
		int *thrown) {
	if (strncmp(op->name, "cp_rsa", 6) == 0 || strncmp(op->name, "cp_phpe", 7) == 0 || strncmp(op->name, "cap_rsa", 7) == 0) need_keys();
	if (strncmp(op->name, "cap_rabin", 9) == 0 || strncmp(op->name, "cap_bdpe", 8) == 0) need_keys2();
	if (cur_curve < 0) set_curve("NIST_P256");
	sim_reseed_fresh(seed, seed_len);
	setup_inputs();
	out_len = 0;
	sim_alloc.count = 0;
	sim_alloc.fired = 0;
	sim_alloc.live = 0;
	sim_alloc.fail_at[0] = fail1;
	sim_alloc.fail_at[1] = fail2;
	sim_alloc.fill = fill;
	sim_alloc.fill_on = 1;
	/* the digits above the length of every integer object the op may hand over hold what "an earlier, longer value"
	 * left there - a pattern derived from the fill word, so that a result computed from them shows in the two-pattern
	 * differential (relic never clears digits when a value shrinks; reading them, or extending a value over them
	 * without clearing, uses storage the current value never wrote) */
	for (int i = 0; i < NB; i++) {
		bn_st *objs[2] = { B[i], R[i] };
		for (int o = 0; o < 2; o++) {
			for (size_t j = (size_t)objs[o]->used; j < (size_t)objs[o]->alloc; j++) {
				objs[o]->dp[j] = (dig_t)(fill * 0x9E3779B97F4A7C15ULL + j * 0x100000001B3ULL) | 1;
			}
		}
	}
	sim_scrub_stack(fill ^ 0x5555);
	*thrown = 0;
	chain_bad = 0;
	if (bare_mode) {
		/* a caller without a protected block: errors are reported through the sticky code only */
		op->run();
	} else {
		RLC_TRY {
			op->run();
		} RLC_CATCH_ANY {
			*thrown = 1;
		}
	}
	WIN_OFF();
	sim_alloc.fail_at[0] = sim_alloc.fail_at[1] = 0;
	sim_alloc.fill_on = 0;
	if (cycle_pending) {
		/* back to the plan's curve after an excursion to another parameter set */
		cycle_pending = 0;
		(void)err_get_code();
		ep_param_set(cur_curve);
		if (has_pc) pc_param_set_any();
		(void)err_get_code();
	}
	/* whatever the call reported, every integer object the caller handed in is still a readable object */
	{
		volatile size_t acc = 0;
		for (int i = 0; i < NB; i++) {
			acc += bn_bits(B[i]) + bn_bits(R[i]);
			if (R[i]->used > 0) acc += (size_t)R[i]->dp[0];
		}
		(void)acc;
	}
}

static void engine_run(void) {
	char *line, *tok[24];
	while ((line = plan_next_line()) != NULL) {
		int n = plan_split(line, tok, 24);
		if (n == 0) continue;
		if (strcmp(tok[0], "CURVE") == 0) {
			int r = set_curve(tok[1]);
			tr_printf("CURVE %s %d pc=%d\n", tok[1], r, has_pc);
			continue;
		}
		if (strcmp(tok[0], "OP") != 0) continue;
		const op_t *op = NULL;
		for (int i = 0; i < NOPS; i++) if (strcmp(ops[i].name, tok[1]) == 0) op = &ops[i];
		if (op == NULL) { tr_printf("OP %s unknown\n", tok[1]); continue; }
		if (op->need_pc && !has_pc) { tr_printf("OP %s skipped-no-pairing\n", tok[1]); continue; }
		uint8_t seed[64];
		long sl = hex_decode(tok_kv(tok, n, "seed") ? tok_kv(tok, n, "seed") : "00", seed, sizeof(seed));
		if (sl <= 0) { seed[0] = 1; sl = 1; }
		const char *sz = tok_kv(tok, n, "size");
		snprintf(size_cls, sizeof(size_cls), "%s", sz ? sz : "norm");
		cap_delta = tok_kv_long(tok, n, "cap", 0);
		bare_mode = (int)tok_kv_long(tok, n, "bare", 0);
		cnt = (int)(tok_kv_long(tok, n, "n", 3) % NMAX);
		if (cnt < 0) cnt = 3;
		const char *fl = tok_kv(tok, n, "fill");
		uint64_t fa = 1, fb = 2;
		if (fl) { fa = strtoull(fl, (char **)&fl, 10); if (*fl == ',') fb = strtoull(fl + 1, NULL, 10); }
		long maxk = tok_kv_long(tok, n, "max", 64);
		long from = tok_kv_long(tok, n, "from", 1);
		uint64_t pick = (uint64_t)tok_kv_long(tok, n, "pick", 1);
		long pair = tok_kv_long(tok, n, "pair", 0);
		const char *fail = tok_kv(tok, n, "fail");
		int thrown;

		/* fault-free baseline under two fill patterns */
		static uint8_t base[OUTMAX];
		size_t base_len;
		fprintf(stderr, "SIMPROGRESS op=%s k=0\n", op->name);
		cap_log = 1;
		run_op(op, seed, (size_t)sl, fa, 0, 0, &thrown);
		cap_log = 0;
		long A = sim_alloc.count;
		long live0 = sim_alloc.live;
		int code0 = err_get_code() != RLC_OK;
		base_len = out_len;
		memcpy(base, outbuf, out_len);
		int thrown0 = thrown;
		run_op(op, seed, (size_t)sl, fb, 0, 0, &thrown);
		int same = (out_len == base_len && memcmp(base, outbuf, out_len) == 0 && thrown == thrown0);
		(void)err_get_code();
		tr_printf("OP %s A=%ld thrown=%d code=%d live=%ld filldiff=%d chain=%d out=", op->name, A, thrown0, code0, live0, !same, !chain_bad);
		tr_hex(base, base_len > 96 ? 96 : base_len);
		tr_str("\n");
		if (!same) {
			tr_str("FILLOUT ");
			tr_hex(outbuf, out_len > 96 ? 96 : out_len);
			tr_str("\n");
		}
		{
			/* whatever the call reported, the library must remain usable afterwards */
			uint8_t pr[256];
			size_t pl = usability_probe(pr);
			tr_printf("POST probe=%d code=%d\n", pl == probe_ref_len && memcmp(pr, probe_ref, pl) == 0, err_get_code() != RLC_OK);
		}
		if (fail == NULL || strcmp(fail, "none") == 0 || A == 0 || thrown0) continue;

		/* selection of failure points */
		long nsel = 0;
		static long sel[4096];
		if (strcmp(fail, "all") == 0) {
			if (A <= maxk) {
				for (long k = 1; k <= A && nsel < 4096; k++) sel[nsel++] = k;
			} else {
				/* seeded subset biased to the first and last 16 points */
				uint64_t s = pick;
				char *mark = (char *)sim_sys_malloc((size_t)A + 1);
				memset(mark, 0, (size_t)A + 1);
				long want = maxk;
				for (long k = 1; k <= 8 && want > 0; k++) { if (!mark[k]) { mark[k] = 1; want--; } }
				for (long k = A; k > A - 8 && k >= 1 && want > 0; k--) { if (!mark[k]) { mark[k] = 1; want--; } }
				long guard = 0;
				while (want > 0 && guard++ < 100000) {
					uint64_t r = sim_mix64(&s);
					long k;
					if ((r & 3) == 0) k = 1 + (long)((r >> 8) % 32) % A;
					else if ((r & 3) == 1) k = A - (long)((r >> 8) % 32) % A;
					else k = 1 + (long)((r >> 8) % (uint64_t)A);
					if (k >= 1 && k <= A && !mark[k]) { mark[k] = 1; want--; }
				}
				for (long k = 1; k <= A && nsel < 4096; k++) if (mark[k]) sel[nsel++] = k;
				sim_sys_free(mark);
			}
		} else {
			const char *p = fail;
			while (*p && nsel < 4096) {
				long k = strtol(p, (char **)&p, 10);
				sel[nsel++] = 1 + ((k - 1) % A + A) % A;
				if (*p == ',') p++;
			}
		}
		for (long j = 0; j < nsel; j++) {
			long k = sel[j];
			if (k < from) continue;
			long k2 = 0;
			if (pair > 0) {
				/* second failure lands in the unwinding path: a few allocations later */
				k2 = k + 1 + (long)(pair % 7);
			}
			fprintf(stderr, "SIMPROGRESS op=%s k=%ld\n", op->name, k);
			run_op(op, seed, (size_t)sl, fa, k, k2, &thrown);
			long fired = sim_alloc.fired, live = sim_alloc.live;
			int code = err_get_code() != RLC_OK;
			int chain_ok = core_get()->last == NULL || core_get()->last == &core_get()->error;
			if (core_get()->last != NULL) { err_t e; char *m; err_get_msg(&e, &m); }
			size_t fl_len = out_len;
			int out_same_as_base = (fl_len == base_len && memcmp(base, outbuf, fl_len) == 0);
			/* the library remains usable: same op, fault-free, must reproduce the baseline */
			int thrown2;
			run_op(op, seed, (size_t)sl, fa, 0, 0, &thrown2);
			int again_ok = (out_len == base_len && memcmp(base, outbuf, out_len) == 0 && thrown2 == thrown0);
			int code2 = err_get_code() != RLC_OK;
			uint8_t pr[256];
			size_t pl = usability_probe(pr);
			int probe_ok = (pl == probe_ref_len && memcmp(pr, probe_ref, pl) == 0);
			(void)err_get_code();
			tr_printf("K %ld fired=%ld thrown=%d code=%d silent_same=%d live=%ld chain=%d again=%d code2=%d probe=%d\n",
					k, fired, thrown, code, out_same_as_base, live - live0, chain_ok, again_ok, code2, probe_ok);
		}
		tr_printf("END %s\n", op->name);
	}
}
