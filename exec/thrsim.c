/*
 * thrsim executor (DESIGN.md 3.6.4): real pthreads, each with its own thread-local library
 * context, run under a seeded baton scheduler.  relic is compiled with
 * -fsanitize-coverage=trace-pc, so every basic block of library code calls
 * __sanitizer_cov_trace_pc(), which is the preemption point: exactly one simulated thread holds
 * the baton; when its block budget is used up it hands the baton to the thread named by the next
 * plan segment and parks on its semaphore.  The kernel never chooses who runs.
 *
 * Plan:
 *   MODE <t> init|lazy                 lazy: no core_init(), relies on core_set_thread_initializer
 *   THREAD <t> <item> [args]           script lines of thread t (step library of ctxsteps.h)
 *   SEG <t> <nblocks>                  schedule: run thread (t mod #unfinished) for nblocks blocks
 * Transcript: "THR <t>" + that thread's lines, then "SCHED switches=<n> blocks=<n> segs=<n>".
 */
#define SIM_THREADS
#include <pthread.h>
#include <semaphore.h>
#include "simcommon.h"
#include "ctxsteps.h"

#define NTHR 4
#define MAXLINES 256
#define MAXSEG 4096

typedef struct {
	char *lines[MAXLINES];
	int nlines;
	int lazy;
	int used;
	sem_t sem;
	pthread_t tid;
	volatile int finished;
	volatile int at_barrier;		/* parked at a BARRIER step until every live thread has reached one */
	char *out;
	size_t out_len;
	sim_dev_t dev;
} thr_t;

static thr_t T[NTHR];
/* t >= 0: run thread t for n blocks; t == -2: n round-robin slices of 1..len blocks (lengths from seed) */
static struct { int t; long n; long len; uint64_t seed; } segs[MAXSEG];
static long rr_count;
static int nsegs, seg_pos;
static volatile long budget;
static volatile int cur = -1;			/* index of the thread holding the baton */
static volatile int sched_on = 0;
static long n_switch, n_blocks;
static sem_t main_sem;
static __thread int my_index = -1;

static int pick_target(int want) {
	int live[NTHR], nl = 0;
	for (int i = 0; i < NTHR; i++) { if (T[i].used && !T[i].finished && !T[i].at_barrier) live[nl++] = i; }
	if (nl == 0) return -1;
	return live[((want % nl) + nl) % nl];
}

/* Chooses who runs next and for how long; returns the thread index or -1 if all are done. */
/* When every live thread is parked at a barrier, the barrier opens. */
static int barrier_open_if_complete(void) {
	int arriving = 0, parked = 0;
	for (int i = 0; i < NTHR; i++) {
		if (!T[i].used || T[i].finished) continue;
		if (T[i].at_barrier) parked++; else arriving++;
	}
	if (arriving == 0 && parked > 0) {
		for (int i = 0; i < NTHR; i++) T[i].at_barrier = 0;
		return 1;
	}
	return 0;
}

static int next_slice(void);
static int next_slice(void) {
	(void)barrier_open_if_complete();
	if (seg_pos < nsegs && segs[seg_pos].t == -2) {
		if (segs[seg_pos].n > 0) {
			segs[seg_pos].n--;
			budget = 1 + (long)(sim_mix64(&segs[seg_pos].seed) % (uint64_t)(segs[seg_pos].len > 0 ? segs[seg_pos].len : 1));
			return pick_target((int)(rr_count++ & 0x3fffffff));
		}
		seg_pos++;
		return next_slice();
	}
	if (seg_pos < nsegs) {
		int t = pick_target(segs[seg_pos].t);
		budget = segs[seg_pos].n > 0 ? segs[seg_pos].n : 1;
		seg_pos++;
		return t;
	}
	/* plan exhausted: the remaining threads run to completion in index order */
	budget = 0x7fffffffffffffffL;
	return pick_target(0);
}

static void hand_over(int self, int finished) {
	int t = next_slice();
	if (t < 0) {
		sched_on = 0;
		sem_post(&main_sem);
		return;
	}
	if (t == self && !finished) return;
	n_switch++;
	cur = t;
	sem_post(&T[t].sem);
	if (!finished) {
		sem_wait(&T[self].sem);
	}
}

/* BARRIER step of a script: the threads are aligned at this point of their scripts whatever their initialisation
 * cost; the plan's next segments (a lag, round-robin slices) then apply from an aligned start. */
static void barrier_wait(int self) {
	if (!sched_on || self != cur) return;
	T[self].at_barrier = 1;
	if (!barrier_open_if_complete()) {
		/* the baton goes to a thread that still has to arrive, with an unbounded budget */
		int t = pick_target(0);
		budget = 0x7fffffffffffffffL;
		n_switch++;
		cur = t;
		sem_post(&T[t].sem);
		sem_wait(&T[self].sem);
		return;
	}
	/* last to arrive: the plan decides who runs next */
	budget = 0;
	hand_over(self, 0);
}

void __sanitizer_cov_trace_pc(void) {
	if (!sched_on || my_index < 0 || my_index != cur) return;
	n_blocks++;
	if (--budget > 0) return;
	hand_over(my_index, 0);
}

static void lazy_init(void *arg) {
	(void)arg;
	core_init();
}

static void *thread_main(void *arg) {
	thr_t *me = (thr_t *)arg;
	int idx = (int)(me - T);
	char *tok[16];
	sem_wait(&me->sem);
	my_index = idx;
	sim_dev_cur = &me->dev;
	tr_buf = NULL; tr_len = 0; tr_cap = 0;
	if (!me->lazy) {
		int rc = core_init();
		tr_printf("INIT rc=%d\n", rc != RLC_OK);
	} else {
		tr_printf("INIT lazy\n");
	}
	for (int i = 0; i < me->nlines; i++) {
		int n = plan_split(me->lines[i], tok, 16);
		if (n > 0 && !strcmp(tok[0], "BARRIER")) { barrier_wait(idx); continue; }
		if (n > 0) cs_step(tok, n);
	}
	tr_printf("CLEAN rc=%d\n", core_clean() != RLC_OK);
	me->out = tr_buf;
	me->out_len = tr_len;
	me->finished = 1;
	my_index = -1;
	hand_over(idx, 1);
	return NULL;
}

static void engine_boot(void) {
	sem_init(&main_sem, 0, 0);
	core_set_thread_initializer(lazy_init, NULL);
}

static void engine_run(void) {
	char *line;
	memset(T, 0, sizeof(T));
	nsegs = seg_pos = 0; rr_count = 0;
	n_switch = n_blocks = 0;
	while ((line = plan_next_line()) != NULL) {
		if (strncmp(line, "THREAD ", 7) == 0) {
			int t = atoi(line + 7) % NTHR;
			char *rest = strchr(line + 7, ' ');
			if (rest && T[t].nlines < MAXLINES) { T[t].lines[T[t].nlines++] = rest + 1; T[t].used = 1; }
		} else if (strncmp(line, "MODE ", 5) == 0) {
			int t = atoi(line + 5) % NTHR;
			T[t].lazy = strstr(line, "lazy") != NULL;
		} else if (strncmp(line, "RR ", 3) == 0 && nsegs < MAXSEG) {
			char *p = line + 3;
			segs[nsegs].t = -2;
			segs[nsegs].n = strtol(p, &p, 10);
			segs[nsegs].len = strtol(p, &p, 10);
			segs[nsegs].seed = strtoull(p, NULL, 10);
			nsegs++;
		} else if (strncmp(line, "SEG ", 4) == 0 && nsegs < MAXSEG) {
			char *p = line + 4;
			segs[nsegs].t = (int)strtol(p, &p, 10);
			segs[nsegs].n = strtol(p, NULL, 10);
			nsegs++;
		}
	}
	int any = 0;
	for (int i = 0; i < NTHR; i++) {
		if (!T[i].used) continue;
		any = 1;
		uint8_t seed[64];
		memset(seed, 0x70 + i, sizeof(seed));
		sim_dev_reset(&T[i].dev, seed, sizeof(seed), 100 + (uint64_t)i);
		sem_init(&T[i].sem, 0, 0);
		pthread_attr_t at;
		pthread_attr_init(&at);
		pthread_attr_setstacksize(&at, 16 << 20);
		pthread_create(&T[i].tid, &at, thread_main, &T[i]);
		pthread_attr_destroy(&at);
	}
	if (any) {
		sched_on = 1;
		int t = next_slice();
		cur = t;
		sem_post(&T[t].sem);
		sem_wait(&main_sem);
		for (int i = 0; i < NTHR; i++) { if (T[i].used) pthread_join(T[i].tid, NULL); }
	}
	for (int i = 0; i < NTHR; i++) {
		if (!T[i].used) continue;
		tr_printf("THR %d\n", i);
		tr_reserve(T[i].out_len);
		memcpy(tr_buf + tr_len, T[i].out, T[i].out_len);
		tr_len += T[i].out_len;
		sim_sys_free(T[i].out);
		sem_destroy(&T[i].sem);
	}
	tr_printf("SCHED switches=%ld blocks=%ld segs=%d used=%d\n", n_switch, n_blocks, nsegs, seg_pos);
}
