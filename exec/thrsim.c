/*
 * thrsim executor (DESIGN.md 3.6.4): real pthreads, each with its own thread-local library
 * context, run under a seeded baton scheduler.  relic is compiled with
 * -fsanitize-coverage=trace-pc, so every basic block of library code calls
 * __sanitizer_cov_trace_pc(), which is the preemption point: exactly one simulated thread holds
 * the baton; when its block budget is used up it hands the baton to the thread named by the next
 * plan segment and parks on its semaphore.  The kernel never chooses who runs.
 *
 * Plan:
 *   MODE <t> init|lazy                 lazy: no core_init(), relies on core_set_thread_initializer
 *   THREAD <t> <item> [args]           script lines of thread t (step library of ctxsteps.h)
 *   SEG <t> <nblocks>                  schedule: run thread (t mod #unfinished) for nblocks blocks
 *   RR <n> <len> <seed>                n round-robin slices of 1..len blocks
 *   WPARK first|event <i> <m> <cap> <rrn> <rrlen> <seed>
 *                                      race-directed: the thread that reaches the i-th distinct watched block for the
 *                                      first time in the process (first) / causes the i-th watch event (event) is parked
 *                                      in front of that block; another thread runs until m further watch events have
 *                                      happened (at most cap blocks), then rrn round-robin slices of 1..rrlen blocks;
 *                                      then the SEG/RR schedule goes on.  Watched blocks: <executor>.watch (sim/watch.py),
 *                                      the blocks of library code that touch writable static storage that is not thread-local.
 * Transcript: "THR <t>" + that thread's lines, then "SCHED switches=<n> blocks=<n> segs=<n>".
 */
#define SIM_THREADS
#include <pthread.h>
#include <semaphore.h>
#include "simcommon.h"
#include "ctxsteps.h"

#define NTHR 4
#define MAXLINES 256
#define MAXSEG 4096

typedef struct {
	char *lines[MAXLINES];
	int nlines;
	int lazy;
	int used;
	sem_t sem;
	pthread_t tid;
	volatile int finished;
	volatile int at_barrier;		/* parked at a BARRIER step until every live thread has reached one */
	char *out;
	size_t out_len;
	sim_dev_t dev;
} thr_t;

static thr_t T[NTHR];
/* t >= 0: run thread t for n blocks; t == -2: n round-robin slices of 1..len blocks (lengths from seed) */
static struct { int t; long n; long len; uint64_t seed; } segs[MAXSEG];
static long rr_count;
static int nsegs, seg_pos;
static volatile long budget;
static volatile int cur = -1;			/* index of the thread holding the baton */
static volatile int sched_on = 0;
static long n_switch, n_blocks;

/* watch list (sorted callback return addresses) and race-directed parking */
#define MAXWATCH 4096
#define MAXWP 16
static uintptr_t watch_pc[MAXWATCH];
static unsigned char watch_seen[MAXWATCH];
static int n_watchpc;
static long n_watch, n_wfirst, n_wpark;
static struct { int first; long idx, m, cap, rrn, rrlen; uint64_t seed; int fired; } wps[MAXWP];
static int nwp;
static int inj_phase;				/* 0 none, 1 another thread runs up to the target, 2 round-robin slices */
static long inj_target, inj_rr_n, inj_rr_len;
static uint64_t inj_seed;
static sem_t main_sem;
static __thread int my_index = -1;

static int pick_target(int want) {
	int live[NTHR], nl = 0;
	for (int i = 0; i < NTHR; i++) { if (T[i].used && !T[i].finished && !T[i].at_barrier) live[nl++] = i; }
	if (nl == 0) return -1;
	return live[((want % nl) + nl) % nl];
}

/* Chooses who runs next and for how long; returns the thread index or -1 if all are done. */
/* When every live thread is parked at a barrier, the barrier opens. */
static int barrier_open_if_complete(void) {
	int arriving = 0, parked = 0;
	for (int i = 0; i < NTHR; i++) {
		if (!T[i].used || T[i].finished) continue;
		if (T[i].at_barrier) parked++; else arriving++;
	}
	if (arriving == 0 && parked > 0) {
		for (int i = 0; i < NTHR; i++) T[i].at_barrier = 0;
		return 1;
	}
	return 0;
}

/* a live thread other than self, the next one in index order; -1 if there is none */
static int pick_other(int self) {
	for (int d = 1; d < NTHR; d++) {
		int i = (self + d) % NTHR;
		if (T[i].used && !T[i].finished && !T[i].at_barrier) return i;
	}
	return -1;
}

static int next_slice(void);
static int next_slice(void) {
	(void)barrier_open_if_complete();
	if (inj_phase == 1) inj_phase = 2;		/* the cap ran out, or the running thread finished / reached a barrier */
	if (inj_phase == 2) {
		if (inj_rr_n > 0) {
			inj_rr_n--;
			budget = 1 + (long)(sim_mix64(&inj_seed) % (uint64_t)(inj_rr_len > 0 ? inj_rr_len : 1));
			return pick_target((int)(rr_count++ & 0x3fffffff));
		}
		inj_phase = 0;
	}
	if (seg_pos < nsegs && segs[seg_pos].t == -2) {
		if (segs[seg_pos].n > 0) {
			segs[seg_pos].n--;
			budget = 1 + (long)(sim_mix64(&segs[seg_pos].seed) % (uint64_t)(segs[seg_pos].len > 0 ? segs[seg_pos].len : 1));
			return pick_target((int)(rr_count++ & 0x3fffffff));
		}
		seg_pos++;
		return next_slice();
	}
	if (seg_pos < nsegs) {
		int t = pick_target(segs[seg_pos].t);
		budget = segs[seg_pos].n > 0 ? segs[seg_pos].n : 1;
		seg_pos++;
		return t;
	}
	/* plan exhausted: the remaining threads run to completion in index order */
	budget = 0x7fffffffffffffffL;
	return pick_target(0);
}

static void hand_over(int self, int finished) {
	int t = next_slice();
	if (t < 0) {
		sched_on = 0;
		sem_post(&main_sem);
		return;
	}
	if (t == self && !finished) return;
	n_switch++;
	cur = t;
	sem_post(&T[t].sem);
	if (!finished) {
		sem_wait(&T[self].sem);
	}
}

/* BARRIER step of a script: the threads are aligned at this point of their scripts whatever their initialisation
 * cost; the plan's next segments (a lag, round-robin slices) then apply from an aligned start. */
static void barrier_wait(int self) {
	if (!sched_on || self != cur) return;
	T[self].at_barrier = 1;
	if (!barrier_open_if_complete()) {
		/* the baton goes to a thread that still has to arrive, with an unbounded budget */
		int t = pick_target(0);
		budget = 0x7fffffffffffffffL;
		n_switch++;
		cur = t;
		sem_post(&T[t].sem);
		sem_wait(&T[self].sem);
		return;
	}
	/* last to arrive: the plan decides who runs next */
	budget = 0;
	hand_over(self, 0);
}

static int watch_find(uintptr_t pc) {
	int lo = 0, hi = n_watchpc - 1;
	while (lo <= hi) {
		int mid = (lo + hi) / 2;
		if (watch_pc[mid] == pc) return mid;
		if (watch_pc[mid] < pc) lo = mid + 1; else hi = mid - 1;
	}
	return -1;
}

/* A watch event of the running thread.  Returns 1 if the thread was parked here and has been resumed since. */
static int watch_event(int self, int wi) {
	long ev = n_watch++;
	int first = !watch_seen[wi];
	long ord = -1;
	if (first) { watch_seen[wi] = 1; ord = n_wfirst++; }
	if (inj_phase == 1) {
		if (n_watch > inj_target) { inj_phase = 2; budget = 0; }
		return 0;
	}
	if (inj_phase != 0) return 0;
	for (int i = 0; i < nwp; i++) {
		if (wps[i].fired) continue;
		if (wps[i].first ? (first && ord == wps[i].idx) : (ev == wps[i].idx)) {
			int t = pick_other(self);
			wps[i].fired = 1;
			if (t < 0) return 0;
			n_wpark++;
			inj_phase = 1;
			inj_target = n_watch + wps[i].m;
			inj_rr_n = wps[i].rrn; inj_rr_len = wps[i].rrlen; inj_seed = wps[i].seed;
			budget = wps[i].cap > 0 ? wps[i].cap : 1;
			n_switch++;
			cur = t;
			sem_post(&T[t].sem);
			sem_wait(&T[self].sem);
			return 1;
		}
	}
	return 0;
}

void __sanitizer_cov_trace_pc(void) {
	if (!sched_on || my_index < 0 || my_index != cur) return;
	n_blocks++;
	if (n_watchpc) {
		int wi = watch_find((uintptr_t)__builtin_return_address(0));
		if (wi >= 0 && watch_event(my_index, wi)) return;
	}
	if (--budget > 0) return;
	hand_over(my_index, 0);
}

static void lazy_init(void *arg) {
	(void)arg;
	core_init();
}

static void *thread_main(void *arg) {
	thr_t *me = (thr_t *)arg;
	int idx = (int)(me - T);
	char *tok[16];
	sem_wait(&me->sem);
	my_index = idx;
	sim_dev_cur = &me->dev;
	tr_buf = NULL; tr_len = 0; tr_cap = 0;
	if (!me->lazy) {
		int rc = core_init();
		tr_printf("INIT rc=%d\n", rc != RLC_OK);
	} else {
		tr_printf("INIT lazy\n");
	}
	for (int i = 0; i < me->nlines; i++) {
		int n = plan_split(me->lines[i], tok, 16);
		if (n > 0 && !strcmp(tok[0], "BARRIER")) { barrier_wait(idx); continue; }
		if (n > 0) cs_step(tok, n);
	}
	tr_printf("CLEAN rc=%d\n", core_clean() != RLC_OK);
	me->out = tr_buf;
	me->out_len = tr_len;
	me->finished = 1;
	my_index = -1;
	hand_over(idx, 1);
	return NULL;
}

static void watch_load(void) {
	char path[4200];
	ssize_t n = readlink("/proc/self/exe", path, 4096);
	if (n <= 0) return;
	path[n] = 0;
	strcat(path, ".watch");
	FILE *f = fopen(path, "r");
	char ln[512];
	if (!f) return;
	while (n_watchpc < MAXWATCH && fgets(ln, sizeof(ln), f)) {
		uintptr_t a = (uintptr_t)strtoull(ln, NULL, 16);
		if (a) watch_pc[n_watchpc++] = a;		/* the file is sorted */
	}
	fclose(f);
}

static void engine_boot(void) {
	sem_init(&main_sem, 0, 0);
	watch_load();
	core_set_thread_initializer(lazy_init, NULL);
}

static void engine_run(void) {
	char *line;
	memset(T, 0, sizeof(T));
	nsegs = seg_pos = 0; rr_count = 0;
	n_switch = n_blocks = 0;
	n_watch = n_wfirst = n_wpark = 0; nwp = 0; inj_phase = 0;
	memset(watch_seen, 0, sizeof(watch_seen));
	while ((line = plan_next_line()) != NULL) {
		if (strncmp(line, "THREAD ", 7) == 0) {
			int t = atoi(line + 7) % NTHR;
			char *rest = strchr(line + 7, ' ');
			if (rest && T[t].nlines < MAXLINES) { T[t].lines[T[t].nlines++] = rest + 1; T[t].used = 1; }
		} else if (strncmp(line, "MODE ", 5) == 0) {
			int t = atoi(line + 5) % NTHR;
			T[t].lazy = strstr(line, "lazy") != NULL;
		} else if (strncmp(line, "RR ", 3) == 0 && nsegs < MAXSEG) {
			char *p = line + 3;
			segs[nsegs].t = -2;
			segs[nsegs].n = strtol(p, &p, 10);
			segs[nsegs].len = strtol(p, &p, 10);
			segs[nsegs].seed = strtoull(p, NULL, 10);
			nsegs++;
		} else if (strncmp(line, "WPARK ", 6) == 0 && nwp < MAXWP) {
			char *p = line + 6;
			wps[nwp].first = strncmp(p, "first", 5) == 0;
			p = strchr(p, ' ');
			if (p) {
				wps[nwp].idx = strtol(p, &p, 10);
				wps[nwp].m = strtol(p, &p, 10);
				wps[nwp].cap = strtol(p, &p, 10);
				wps[nwp].rrn = strtol(p, &p, 10);
				wps[nwp].rrlen = strtol(p, &p, 10);
				wps[nwp].seed = strtoull(p, NULL, 10);
				wps[nwp].fired = 0;
				nwp++;
			}
		} else if (strncmp(line, "SEG ", 4) == 0 && nsegs < MAXSEG) {
			char *p = line + 4;
			segs[nsegs].t = (int)strtol(p, &p, 10);
			segs[nsegs].n = strtol(p, NULL, 10);
			nsegs++;
		}
	}
	int any = 0;
	for (int i = 0; i < NTHR; i++) {
		if (!T[i].used) continue;
		any = 1;
		uint8_t seed[64];
		memset(seed, 0x70 + i, sizeof(seed));
		sim_dev_reset(&T[i].dev, seed, sizeof(seed), 100 + (uint64_t)i);
		sem_init(&T[i].sem, 0, 0);
		pthread_attr_t at;
		pthread_attr_init(&at);
		pthread_attr_setstacksize(&at, 16 << 20);
		pthread_create(&T[i].tid, &at, thread_main, &T[i]);
		pthread_attr_destroy(&at);
	}
	if (any) {
		sched_on = 1;
		int t = next_slice();
		cur = t;
		sem_post(&T[t].sem);
		sem_wait(&main_sem);
		for (int i = 0; i < NTHR; i++) { if (T[i].used) pthread_join(T[i].tid, NULL); }
	}
	for (int i = 0; i < NTHR; i++) {
		if (!T[i].used) continue;
		tr_printf("THR %d\n", i);
		tr_reserve(T[i].out_len);
		memcpy(tr_buf + tr_len, T[i].out, T[i].out_len);
		tr_len += T[i].out_len;
		sim_sys_free(T[i].out);
		sem_destroy(&T[i].sem);
	}
	tr_printf("SCHED switches=%ld blocks=%ld segs=%d used=%d watched=%d wevents=%ld wfirst=%ld wparks=%ld\n", n_switch, n_blocks, nsegs, seg_pos,
			n_watchpc, n_watch, n_wfirst, n_wpark);
}
