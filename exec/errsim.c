/*
 * errsim executor: interprets generated try/throw programs with relic's real
 * error-handling macros and logs the control-flow trace (DESIGN.md 3.6.1).
 *
 * Plan body:   PROG <s-expression>
 * Node forms (id = position label chosen by the generator):
 *   (E id)                 emit
 *   (T id e)               RLC_THROW(e)
 *   (R id)                 RLC_THROW(ERR_CAUGHT)
 *   (A id (body)(hnd)(fin))   RLC_TRY / RLC_CATCH_ANY / RLC_FINALLY
 *   (a id (body)(hnd))        RLC_TRY / RLC_CATCH_ANY
 *   (S id (body)(hnd)(fin))   RLC_TRY / RLC_CATCH(e) / RLC_FINALLY
 *   (s id (body)(hnd))        RLC_TRY / RLC_CATCH(e)
 *   (C id pad (seq))       run seq in a new (noinline) C function frame
 *   (G id)                 err_get_code
 *   (M id)                 err_get_msg
 *   (L id kind arg)        a real relic call that throws from inside the library
 *   (K id kind)            a real relic call that succeeds (uses its own blocks)
 *   (W id ctx (seq))       core_set(ctx); seq; core_set(back)
 *
 * Transcript events (one per line):  <tag> <id> [fields]
 *   e  emit            t  about to throw     c  throw returned (no transfer)
 *   b  body entered    h  handler entered    f  finaliser entered   x  block left
 *   g  get_code result m  get_msg            l/k lib call about to run / returned
 *   w/v  context switched / switched back
 * chain field: N (NULL), S (the context's own error slot), E (the frame of the
 * enclosing block as tracked by the interpreter), ? (anything else).
 */
#include "simcommon.h"

#define MAXN 4096
#define NCTX 3

typedef struct {
	char kind;
	int id;
	int arg, arg2;
	int seq[3];		/* first child index list start for body/handler/fin, -1 none */
	int nseq[3];
} node_t;

static node_t nodes[MAXN];
static int n_nodes;
static int kids[MAXN * 2];
static int n_kids;

static ctx_t *ctxs[NCTX];
/* Frame of the innermost active block of each context, as seen from inside its body. */
static sts_t *enclosing[NCTX];
static int cur_ctx;
#ifdef SIM_WRAP_ALLOC
static long lib_allocs[8];
#endif

static const char *pp;

static void skip_ws(void) { while (*pp == ' ') pp++; }

static int parse_int(void) {
	skip_ws();
	int v = (int)strtol(pp, (char **)&pp, 10);
	return v;
}

static int parse_node(void);

/* Parses "( node node ... )" and returns start index into kids[], count in *cnt. */
static int parse_seq(int *cnt) {
	int tmp[256];
	int n = 0;
	skip_ws();
	if (*pp != '(') { *cnt = 0; return -1; }
	pp++;
	for (;;) {
		skip_ws();
		if (*pp == ')') { pp++; break; }
		if (*pp == 0) break;
		int k = parse_node();
		if (n < 256) tmp[n++] = k;
	}
	int start = n_kids;
	for (int i = 0; i < n; i++) kids[n_kids++] = tmp[i];
	*cnt = n;
	return start;
}

static int parse_node(void) {
	skip_ws();
	if (*pp != '(') return -1;
	pp++;
	skip_ws();
	int idx = n_nodes++;
	node_t *nd = &nodes[idx];
	memset(nd, 0, sizeof(*nd));
	nd->seq[0] = nd->seq[1] = nd->seq[2] = -1;
	nd->kind = *pp++;
	nd->id = parse_int();
	switch (nd->kind) {
		case 'T': nd->arg = parse_int(); break;
		case 'L': nd->arg = parse_int(); nd->arg2 = parse_int(); break;
		case 'K': nd->arg = parse_int(); break;
		case 'A': case 'S':
			nd->seq[0] = parse_seq(&nd->nseq[0]);
			nd->seq[1] = parse_seq(&nd->nseq[1]);
			nd->seq[2] = parse_seq(&nd->nseq[2]);
			break;
		case 'a': case 's':
			nd->seq[0] = parse_seq(&nd->nseq[0]);
			nd->seq[1] = parse_seq(&nd->nseq[1]);
			break;
		case 'C':
			nd->arg = parse_int();
			nd->seq[0] = parse_seq(&nd->nseq[0]);
			break;
		case 'W':
			nd->arg = parse_int();
			nd->seq[0] = parse_seq(&nd->nseq[0]);
			break;
		default: break;
	}
	skip_ws();
	if (*pp == ')') pp++;
	return idx;
}

static char chain_sym(void) {
	ctx_t *c = core_get();
	if (c->last == NULL) return 'N';
	if (c->last == &c->error) return 'S';
	if (enclosing[cur_ctx] != NULL && c->last == enclosing[cur_ctx]) return 'E';
	return '?';
}

static void exec_seq(int start, int cnt);

static void __attribute__((noinline)) exec_call(int start, int cnt, int pad) {
	/* a frame of plan-chosen size so that block frames land at varying depths */
	volatile char filler[16 + 16 * 64];
	int n = 16 + 16 * (pad & 63);
	for (int i = 0; i < n; i += 16) filler[i] = (char)i;
	exec_seq(start, cnt);
	__asm__ volatile("" : : "r"(filler) : "memory");
}

/* Real library calls that throw from inside the library. */
static void lib_throw(int kind, int arg) {
	switch (kind) {
		case 0: {
			fp_t a, c;
			fp_null(a); fp_null(c);
			fp_new(a); fp_new(c);
			fp_zero(a);
			fp_inv(c, a);
			fp_free(a); fp_free(c);
			break;
		}
		case 1: {
			bn_t a, b, c;
			bn_null(a); bn_null(b); bn_null(c);
			bn_new(a); bn_new(b); bn_new(c);
			bn_set_dig(a, 77); bn_zero(b);
			bn_div(c, a, b);
			bn_free(a); bn_free(b); bn_free(c);
			break;
		}
		case 2: {
			bn_t a;
			bn_null(a);
			bn_new(a);
			bn_read_str(a, "12", 2, 99);
			bn_free(a);
			break;
		}
		case 3: {
			ep_t p;
			uint8_t buf[2 * RLC_FP_BYTES + 1];
			ep_null(p);
			ep_new(p);
			memset(buf, 0x11, sizeof(buf));
			buf[0] = 4;
			ep_read_bin(p, buf, sizeof(buf));
			ep_free(p);
			break;
		}
		case 4: {
			bn_t a;
			bn_null(a);
			bn_new(a);
			bn_set_2b(a, RLC_BN_BITS - 1);
			bn_lsh(a, a, 2 * RLC_BN_BITS + 64 * 6);
			bn_free(a);
			break;
		}
		case 5: {
			bn_t a;
			uint8_t buf[4];
			bn_null(a);
			bn_new(a);
			bn_set_2b(a, 200);
			bn_write_bin(buf, 1, a);
			bn_free(a);
			break;
		}
#ifdef SIM_WRAP_ALLOC
		case 6: case 7: {
			/* injected allocation failure at point arg (mod the fault-free count) */
			long A = lib_allocs[kind];
			bn_t k;
			ep_t p;
			bn_null(k); ep_null(p);
			bn_new(k); ep_new(p);
			bn_set_dig(k, 0xC0FFEE);
			bn_lsh(k, k, 100);
			bn_add_dig(k, k, 12345);
			/* what relic does with never-initialised table slots after a failed allocation is C08's subject
			 * (allocsim); here the outcome must not depend on what earlier plans left on the stack */
			sim_zero_stack();
			sim_alloc.count = 0;
			sim_alloc.fired = 0;
			sim_alloc.fail_at[0] = A > 0 ? 1 + (arg % A) : 0;
			sim_alloc.active = 1;
			if (kind == 6) {
				ep_mul_gen(p, k);
			} else {
				ep_curve_get_gen(p);
				ep_mul(p, p, k);
			}
			sim_alloc.active = 0;
			sim_alloc.fail_at[0] = 0;
			bn_free(k); ep_free(p);
			break;
		}
#endif
		default:
			RLC_THROW(ERR_NO_VALID);
			break;
	}
}

static void lib_ok(int kind) {
	switch (kind) {
		case 0: {
			fp_t a, c;
			fp_null(a); fp_null(c);
			fp_new(a); fp_new(c);
			fp_set_dig(a, 3);
			fp_inv(c, a);
			fp_free(a); fp_free(c);
			break;
		}
		case 1: {
			bn_t a, b, c;
			bn_null(a); bn_null(b); bn_null(c);
			bn_new(a); bn_new(b); bn_new(c);
			bn_set_dig(a, 77); bn_set_dig(b, 5);
			bn_div(c, a, b);
			bn_mxp(c, a, b, a);
			bn_free(a); bn_free(b); bn_free(c);
			break;
		}
		case 2: {
			bn_t k;
			ep_t p;
			bn_null(k); ep_null(p);
			bn_new(k); ep_new(p);
			bn_set_dig(k, 1234567);
			ep_mul_gen(p, k);
			bn_free(k); ep_free(p);
			break;
		}
		case 3: {
			uint8_t h[RLC_MD_LEN];
			md_map(h, (const uint8_t *)"abc", 3);
			break;
		}
		default: {
			/* scalar multiplications with edge-case scalars (0, 1, n - 1, n, 2n, n + 1, -n, long): every
			 * variant must leave the handler chain exactly as it found it, also on its early exits */
			bn_t k, n;
			ep_t p, q, r;
			ep_t tab[RLC_EP_TABLE_MAX];
			int cls = (kind / 16) % 8, fn = kind % 16;
			bn_null(k); bn_null(n); ep_null(p); ep_null(q); ep_null(r);
			bn_new(k); bn_new(n); ep_new(p); ep_new(q); ep_new(r);
			for (int i = 0; i < RLC_EP_TABLE_MAX; i++) { ep_null(tab[i]); ep_new(tab[i]); }
			ep_curve_get_ord(n);
			switch (cls) {
				case 0: bn_zero(k); break;
				case 1: bn_set_dig(k, 1); break;
				case 2: bn_sub_dig(k, n, 1); break;
				case 3: bn_copy(k, n); break;
				case 4: bn_dbl(k, n); break;
				case 5: bn_add_dig(k, n, 1); break;
				case 6: bn_neg(k, n); break;
				default: bn_mul_dig(k, n, 77); bn_add_dig(k, k, 5); break;
			}
			ep_curve_get_gen(p); ep_dbl(p, p); ep_norm(p, p);
			ep_curve_get_gen(q); ep_mul_dig(q, q, 5);
			switch (fn) {
				case 4: ep_mul_gen(r, k); break;
				case 5: ep_mul(r, p, k); break;
				case 6: ep_mul_sim_gen(r, k, q, k); break;
				case 7: ep_mul_sim(r, p, k, q, k); break;
				case 8: ep_mul_pre(tab, p); ep_mul_fix(r, (const ep_t *)tab, k); break;
				case 9: ep_mul_basic(r, p, k); break;
				case 10: ep_mul_slide(r, p, k); break;
				case 11: ep_mul_monty(r, p, k); break;
				case 12: ep_mul_lwreg(r, p, k); break;
				case 13: ep_mul_pre_combs(tab, p); ep_mul_fix_combs(r, (const ep_t *)tab, k); break;
				case 14: ep_mul_pre_lwnaf(tab, p); ep_mul_fix_lwnaf(r, (const ep_t *)tab, k); break;
				default: ep_mul_sim_joint(r, p, k, q, k); break;
			}
			for (int i = 0; i < RLC_EP_TABLE_MAX; i++) { ep_free(tab[i]); }
			bn_free(k); bn_free(n); ep_free(p); ep_free(q); ep_free(r);
			break;
		}
	}
}

static void exec_node(int idx) {
	node_t *nd = &nodes[idx];
	int id = nd->id;
#ifdef SIM_WRAP_ALLOC
	sim_alloc.active = 0;
	sim_alloc.fail_at[0] = 0;
	sim_alloc.fired = 0;
#endif
	switch (nd->kind) {
		case 'E':
			tr_printf("e %d\n", id);
			break;
		case 'T':
			tr_printf("t %d\n", id);
			RLC_THROW(nd->arg);
			tr_printf("c %d %c\n", id, chain_sym());
			break;
		case 'R':
			tr_printf("t %d\n", id);
			RLC_THROW(ERR_CAUGHT);
			tr_printf("c %d %c\n", id, chain_sym());
			break;
		case 'G':
			tr_printf("g %d %d\n", id, err_get_code() == RLC_OK ? 0 : 1);
			break;
		case 'M': {
			err_t e = ERR_CAUGHT;
			char *msg = NULL;
			/* documented use only: a pending throw from outside any block */
			if (enclosing[cur_ctx] == NULL && core_get()->last == &core_get()->error) {
				err_get_msg(&e, &msg);
				tr_printf("m %d %c\n", id, chain_sym());
			} else {
				tr_printf("m %d skipped\n", id);
			}
			break;
		}
		case 'L':
			tr_printf("l %d\n", id);
			lib_throw(nd->arg, nd->arg2);
#ifdef SIM_WRAP_ALLOC
			sim_alloc.active = 0;
			tr_printf("k %d %c code=%d fired=%ld\n", id, chain_sym(), core_get()->code == RLC_OK ? 0 : 1,
					sim_alloc.fired);
#else
			tr_printf("k %d %c code=%d fired=0\n", id, chain_sym(), core_get()->code == RLC_OK ? 0 : 1);
#endif
			break;
		case 'K':
			tr_printf("l %d\n", id);
			lib_ok(nd->arg);
			tr_printf("k %d %c code=%d fired=0\n", id, chain_sym(), core_get()->code == RLC_OK ? 0 : 1);
			break;
		case 'C':
			exec_call(nd->seq[0], nd->nseq[0], nd->arg);
			break;
		case 'W': {
			int back = cur_ctx;
			int to = nd->arg % NCTX;
			cur_ctx = to;
			core_set(ctxs[to]);
			tr_printf("w %d %d %c\n", id, to, chain_sym());
			exec_seq(nd->seq[0], nd->nseq[0]);
			cur_ctx = back;
			core_set(ctxs[back]);
			tr_printf("v %d %d %c\n", id, back, chain_sym());
			break;
		}
		case 'A': {
			sts_t *outer = enclosing[cur_ctx];
			int me = cur_ctx;
			RLC_TRY {
				enclosing[me] = core_get()->last;
				tr_printf("b %d\n", id);
				exec_seq(nd->seq[0], nd->nseq[0]);
				tr_printf("z %d\n", id);
			} RLC_CATCH_ANY {
				enclosing[me] = outer;
				tr_printf("h %d %c\n", id, chain_sym());
				exec_seq(nd->seq[1], nd->nseq[1]);
			} RLC_FINALLY {
				enclosing[me] = outer;
				tr_printf("f %d %c\n", id, chain_sym());
				exec_seq(nd->seq[2], nd->nseq[2]);
			}
			enclosing[me] = outer;
			tr_printf("x %d %c\n", id, chain_sym());
			break;
		}
		case 'a': {
			sts_t *outer = enclosing[cur_ctx];
			int me = cur_ctx;
			RLC_TRY {
				enclosing[me] = core_get()->last;
				tr_printf("b %d\n", id);
				exec_seq(nd->seq[0], nd->nseq[0]);
				tr_printf("z %d\n", id);
			} RLC_CATCH_ANY {
				enclosing[me] = outer;
				tr_printf("h %d %c\n", id, chain_sym());
				exec_seq(nd->seq[1], nd->nseq[1]);
			}
			enclosing[me] = outer;
			tr_printf("x %d %c\n", id, chain_sym());
			break;
		}
		case 'S': {
			sts_t *outer = enclosing[cur_ctx];
			int me = cur_ctx;
			err_t e = ERR_CAUGHT;
			RLC_TRY {
				enclosing[me] = core_get()->last;
				tr_printf("b %d\n", id);
				exec_seq(nd->seq[0], nd->nseq[0]);
				tr_printf("z %d\n", id);
			} RLC_CATCH(e) {
				enclosing[me] = outer;
				tr_printf("h %d %c e=%d\n", id, chain_sym(), (int)e);
				exec_seq(nd->seq[1], nd->nseq[1]);
			} RLC_FINALLY {
				enclosing[me] = outer;
				tr_printf("f %d %c\n", id, chain_sym());
				exec_seq(nd->seq[2], nd->nseq[2]);
			}
			enclosing[me] = outer;
			tr_printf("x %d %c\n", id, chain_sym());
			break;
		}
		case 's': {
			sts_t *outer = enclosing[cur_ctx];
			int me = cur_ctx;
			err_t e = ERR_CAUGHT;
			RLC_TRY {
				enclosing[me] = core_get()->last;
				tr_printf("b %d\n", id);
				exec_seq(nd->seq[0], nd->nseq[0]);
				tr_printf("z %d\n", id);
			} RLC_CATCH(e) {
				enclosing[me] = outer;
				tr_printf("h %d %c e=%d\n", id, chain_sym(), (int)e);
				exec_seq(nd->seq[1], nd->nseq[1]);
			}
			enclosing[me] = outer;
			tr_printf("x %d %c\n", id, chain_sym());
			break;
		}
		default:
			tr_printf("? %d\n", id);
			break;
	}
}

static void exec_seq(int start, int cnt) {
	for (int i = 0; i < cnt; i++) {
		exec_node(kids[start + i]);
	}
}

static void engine_boot(void) {
	uint8_t seed[64];
	memset(seed, 0x5A, sizeof(seed));
	sim_dev_reset(&sim_dev_main, seed, sizeof(seed), 42);
	for (int i = 0; i < NCTX; i++) {
		if (i == 0) {
			if (core_init() != RLC_OK) _exit(4);
			ctxs[0] = core_get();
		} else {
			ctxs[i] = (ctx_t *)sim_sys_malloc(sizeof(ctx_t));
			memset(ctxs[i], 0, sizeof(ctx_t));
			core_set(ctxs[i]);
			if (core_init() != RLC_OK) _exit(4);
		}
		if (ep_param_set_any() != RLC_OK) _exit(5);
	}
	core_set(ctxs[0]);
#ifdef SIM_WRAP_ALLOC
	/* fault-free allocation counts of the two faultable calls */
	for (int kind = 6; kind <= 7; kind++) {
		lib_allocs[kind] = 0;
		sim_alloc.fail_at[0] = 0;
		lib_throw(kind, 0);
		lib_allocs[kind] = sim_alloc.count;
	}
#endif
}

static void engine_run(void) {
	char *line;
	/* reset every context's error state through the public API */
	for (int i = 0; i < NCTX; i++) {
		core_set(ctxs[i]);
		err_t e; char *msg;
		if (core_get()->last != NULL) err_get_msg(&e, &msg);
		(void)err_get_code();
		enclosing[i] = NULL;
	}
	core_set(ctxs[0]);
	cur_ctx = 0;
	while ((line = plan_next_line()) != NULL) {
		if (strncmp(line, "PROG ", 5) == 0) {
			n_nodes = 0;
			n_kids = 0;
			pp = line + 5;
			int cnt;
			int start = parse_seq(&cnt);
			tr_printf("P %d\n", n_nodes);
			exec_seq(start, cnt);
			tr_printf("Q %c\n", chain_sym());
		}
	}
#ifdef SIM_WRAP_ALLOC
	sim_alloc.active = 0;
#endif
}
