/*
 * codecsim executor (DESIGN.md 3.3): encode -> faulty store/wire -> decode.
 *
 * Plan:
 *   ENTROPY <hex>                 re-instantiate the generator (values drawn with relic's rand)
 *   CURVE <name>                  select prime curve (+ pairing stack on BN_P256); prints PARAM lines
 *   ENC <slot> <type> <fmt> <gen> encode a fresh object into a slot (exact-size heap block)
 *   FAULT <slot> <kind> <a> <b>   damage the slot: flip/set/trunc/extend/zero/tag/splice/setp/inc/dup
 *   DEC <slot> <type>             decode inside a protected block; on success re-encode in the same
 *                                 format and length
 *   CAPW <type> <fmt> <gen> <delta>   writer with capacity need+delta between canaries
 *   BNSTR <radix> <gen>           bn_size_str / bn_write_str / bn_read_str round trip
 *   RDSTR <radix> <hex of string> bn_read_str of an arbitrary string
 *
 * types: bn fp fp2 fp3 fp4 fp6 fp8 fp12 fb ep ep2 eb g1 g2 gt bnraw fpstr
 * fmt:   0 = plain / uncompressed, 1 = packed / compressed
 * gen:   zero one max rand small neg gen inf (what applies to the type)
 */
#include "simcommon.h"

#define NSLOT 8
#define CAN 16

typedef struct { uint8_t *p; size_t len; int used; char type[8]; int fmt; } slot_t;
static slot_t slots[NSLOT];

static int has_pc = 0, has_eb = 0, has_ed = 0, cur_curve = -1;
static char last_dec_type[8];
/* which slot the generated (x) object of a type family belongs to in this plan: a decode is compared with the
 * generated object only if that object was generated for the slot being decoded (never with one left by an earlier plan) */
static const char *fam_names[] = { "bn", "fp", "fp2", "fp3", "fp4", "fp6", "fp8", "fp12", "fb", "ep", "ep2", "eb", "gt", "ed",
	"fp9", "fp16", "fp18", "fp24", "fp48", "fp54" };
#define NFAM ((int)(sizeof(fam_names) / sizeof(fam_names[0])))
static int x_owner[32];
static int fam_of(const char *type) {
	if (!strcmp(type, "bnraw")) type = "bn";
	else if (!strcmp(type, "fpstr")) type = "fp";
	else if (!strcmp(type, "g1")) type = "ep";
	else if (!strcmp(type, "g2")) type = "ep2";
	for (int i = 0; i < NFAM; i++) if (!strcmp(type, fam_names[i])) return i;
	return NFAM;
}

/* one working object per type (x = generated, y = decoded) */
static bn_t bx, by;
static fp_t fx, fy;
static fp2_t f2x, f2y;
static fp3_t f3x, f3y;
static fp4_t f4x, f4y;
static fp6_t f6x, f6y;
static fp8_t f8x, f8y;
static fp12_t f12x, f12y;
/* the higher towers: plain coordinates only; a packed length is met through damage */
#define HI_TOWERS(X) X(fp9, 9, 0, 0) X(fp16, 16, 1, 0) X(fp18, 18, 1, 12) X(fp24, 24, 1, 16) X(fp48, 48, 1, 32) X(fp54, 54, 1, 36)
#define HI_DECL(T, N, P, K) static T##_t hx_##T, hy_##T;
HI_TOWERS(HI_DECL)
static fb_t bfx, bfy;
static ep_t ex, ey;
static ep2_t e2x, e2y;
static eb_t ebx, eby;
#if defined(WITH_ED) && FP_PRIME == 255
#define SIM_ED 1
static ed_t edx, edy;
#endif
static gt_t gx, gy;

static void slot_set(int s, const uint8_t *b, size_t len) {
	if (slots[s].p) free(slots[s].p);
	slots[s].p = (uint8_t *)malloc(len ? len : 1);
	if (len) memcpy(slots[s].p, b, len);
	slots[s].len = len;
	slots[s].used = 1;
}

static void log_fp(const char *name, const fp_t a) {
	uint8_t t[RLC_FP_BYTES];
	fp_write_bin(t, RLC_FP_BYTES, a);
	tr_printf(" %s=", name);
	tr_hex(t, RLC_FP_BYTES);
}

static void print_params(void) {
	uint8_t t[RLC_FP_BYTES];
	bn_t p;
	bn_null(p); bn_new(p);
	p->used = RLC_FP_DIGS;
	dv_copy(p->dp, fp_prime_get(), RLC_FP_DIGS);
	bn_trim(p);
	bn_write_bin(t, RLC_FP_BYTES, p);
	tr_str("PARAM p=");
	tr_hex(t, RLC_FP_BYTES);
	log_fp("a", ep_curve_get_a());
	log_fp("b", ep_curve_get_b());
	tr_printf(" fpbytes=%d qnr=%d cnr=%d", RLC_FP_BYTES, fp_prime_get_qnr(), fp_prime_get_cnr());
	if (has_pc) {
		log_fp("a20", ep2_curve_get_a()[0]); log_fp("a21", ep2_curve_get_a()[1]);
		log_fp("b20", ep2_curve_get_b()[0]); log_fp("b21", ep2_curve_get_b()[1]);
	}
	tr_str("\n");
#ifdef SIM_ED
	if (has_ed) {
		tr_str("PARAME");
		log_fp("a", core_get()->ed_a);
		log_fp("d", core_get()->ed_d);
		tr_str("\n");
	}
#endif
	if (has_eb) {
		uint8_t tb[RLC_FB_BYTES];
		bn_t q;
		bn_null(q); bn_new(q);
		/* the reduction polynomial has degree RLC_FB_BITS: one bit more than an element */
		q->used = RLC_FB_DIGS;
		dv_copy(q->dp, fb_poly_get(), RLC_FB_DIGS);
		bn_trim(q);
		tr_printf("PARAMB m=%d fbbytes=%d poly=", RLC_FB_BITS, RLC_FB_BYTES);
		{
			uint8_t tq[RLC_FB_BYTES + 8];
			size_t l = bn_size_bin(q);
			bn_write_bin(tq, l, q);
			tr_hex(tq, l);
		}
		fb_write_bin(tb, RLC_FB_BYTES, eb_curve_get_a());
		tr_str(" a="); tr_hex(tb, RLC_FB_BYTES);
		fb_write_bin(tb, RLC_FB_BYTES, eb_curve_get_b());
		tr_str(" b="); tr_hex(tb, RLC_FB_BYTES);
		tr_str("\n");
		bn_free(q);
	}
	bn_free(p);
}

static int set_curve(const char *name) {
	int id = -1, pc = 0;
	if (!strcmp(name, "NIST_P256")) id = NIST_P256;
	else if (!strcmp(name, "BSI_P256")) id = BSI_P256;
	else if (!strcmp(name, "SM2_P256")) id = SM2_P256;
	else if (!strcmp(name, "SECG_K256")) id = SECG_K256;
	else if (!strcmp(name, "SM9_P256")) id = SM9_P256;
	else if (!strcmp(name, "BN_P256")) { id = BN_P256; pc = 1; }
#if FP_PRIME == 381
	else if (!strcmp(name, "B12_P381")) { id = B12_P381; pc = 1; }
#endif
#if FP_PRIME == 255
	else if (!strcmp(name, "CURVE_25519")) id = CURVE_25519;
	else if (!strcmp(name, "TWEEDLEDUM")) id = TWEEDLEDUM;
#endif
	if (id < 0) return -1;
	if (id != cur_curve) {
		if (pc) {
			if (pc_param_set_any() != RLC_OK) return -2;
		} else {
			ep_param_set(id);
		}
		cur_curve = id;
		has_pc = pc;
#ifdef SIM_ED
		/* the Edwards curve lives over the prime of Curve25519: selected alongside it (its own layer of the
		 * context), unavailable over any other prime */
		has_ed = 0;
		if (id == CURVE_25519) {
			if (ed_param_set_any() == RLC_OK) has_ed = 1;
			(void)err_get_code();
		}
#endif
	}
	(void)err_get_code();
	return 0;
}

/*============================================================================*/
/* Value generators                                                           */
/*============================================================================*/

static void gen_fp(fp_t a, const char *g) {
	if (!strcmp(g, "zero")) fp_zero(a);
	else if (!strcmp(g, "one")) fp_set_dig(a, 1);
	else if (!strcmp(g, "max")) { fp_zero(a); fp_sub_dig(a, a, 1); }
	else if (!strcmp(g, "small")) { uint8_t r; rand_bytes(&r, 1); fp_set_dig(a, r); }
	else fp_rand(a);
}

static void gen_obj_(const char *type, const char *g);
static void gen_obj(const char *type, const char *g) { x_owner[fam_of(type)] = -1; gen_obj_(type, g); }
static void gen_obj_(const char *type, const char *g) {
	if (!strcmp(type, "bn") || !strcmp(type, "bnraw")) {
		if (!strcmp(g, "zero")) bn_zero(bx);
		else if (!strcmp(g, "one")) bn_set_dig(bx, 1);
		else if (!strcmp(g, "max")) { bn_set_2b(bx, RLC_BN_BITS); bn_sub_dig(bx, bx, 1); }
		else if (!strcmp(g, "small")) { uint8_t r; rand_bytes(&r, 1); bn_set_dig(bx, r); }
		else if (!strcmp(g, "neg")) { uint8_t r[2]; rand_bytes(r, 2); bn_rand(bx, RLC_NEG, 1 + (r[0] * 256 + r[1]) % RLC_BN_BITS); }
		else { uint8_t r[2]; rand_bytes(r, 2); bn_rand(bx, RLC_POS, 1 + (r[0] * 256 + r[1]) % RLC_BN_BITS); }
	} else if (!strcmp(type, "fp") || !strcmp(type, "fpstr")) {
		gen_fp(fx, g);
	} else if (!strcmp(type, "fp2")) {
		if (!strcmp(g, "cyc")) {
			/* a norm-one element, the only kind fp2 packs */
			fp2_rand(f2x);
			fp2_conv_cyc(f2x, f2x);
		} else {
			gen_fp(f2x[0], g); gen_fp(f2x[1], g);
		}
	} else if (!strcmp(type, "fp3")) {
		for (int i = 0; i < 3; i++) { gen_fp(f3x[i], g); }
	} else if (!strcmp(type, "fp4")) {
		for (int i = 0; i < 2; i++) { gen_fp(f4x[i][0], g); gen_fp(f4x[i][1], g); }
	} else if (!strcmp(type, "fp6")) {
		for (int i = 0; i < 3; i++) { gen_fp(f6x[i][0], g); gen_fp(f6x[i][1], g); }
	} else if (!strcmp(type, "fp8")) {
		for (int i = 0; i < 2; i++) { for (int j = 0; j < 2; j++) { gen_fp(f8x[i][j][0], g); gen_fp(f8x[i][j][1], g); } }
	} else if (!strcmp(type, "fp12")) {
		if (!strcmp(g, "cyc")) {
			fp12_rand(f12x);
			fp12_conv_cyc(f12x, f12x);
		} else {
			for (int i = 0; i < 2; i++) { for (int j = 0; j < 3; j++) { gen_fp(f12x[i][j][0], g); gen_fp(f12x[i][j][1], g); } }
		}
#define HI_GEN(T, N, P, K) } else if (!strcmp(type, #T)) { \
		static uint8_t tmp_[54 * RLC_FP_BYTES]; fp_t c_; fp_null(c_); fp_new(c_); \
		for (int i = 0; i < N; i++) { gen_fp(c_, g); fp_write_bin(tmp_ + i * RLC_FP_BYTES, RLC_FP_BYTES, c_); } \
		T##_read_bin(hx_##T, tmp_, (size_t)N * RLC_FP_BYTES); fp_free(c_);
	HI_TOWERS(HI_GEN)
	} else if (!strcmp(type, "fb")) {
		if (!strcmp(g, "zero")) fb_zero(bfx);
		else if (!strcmp(g, "one")) fb_set_dig(bfx, 1);
		else if (!strcmp(g, "max")) { fb_zero(bfx); for (int i = 0; i < RLC_FB_BITS; i++) { fb_set_bit(bfx, i, 1); } }
		else fb_rand(bfx);
	} else if (!strcmp(type, "ep") || !strcmp(type, "g1")) {
		if (!strcmp(g, "inf")) ep_set_infty(ex);
		else if (!strcmp(g, "gen")) ep_curve_get_gen(ex);
		else if (!strcmp(g, "proj")) { ep_rand(ex); ep_dbl_projc(ex, ex); }
		else ep_rand(ex);
	} else if (!strcmp(type, "ep2") || !strcmp(type, "g2")) {
		if (!strcmp(g, "inf")) ep2_set_infty(e2x);
		else if (!strcmp(g, "gen")) ep2_curve_get_gen(e2x);
		else if (!strcmp(g, "proj")) { ep2_rand(e2x); ep2_dbl_projc(e2x, e2x); }
		else ep2_rand(e2x);
	} else if (!strcmp(type, "eb")) {
		if (!strcmp(g, "inf")) eb_set_infty(ebx);
		else if (!strcmp(g, "gen")) eb_curve_get_gen(ebx);
		else if (!strcmp(g, "proj")) { eb_rand(ebx); eb_dbl_projc(ebx, ebx); }
		else eb_rand(ebx);
#ifdef SIM_ED
	} else if (!strcmp(type, "ed")) {
		if (!strcmp(g, "inf")) ed_set_infty(edx);
		else if (!strcmp(g, "gen")) ed_curve_get_gen(edx);
		else if (!strcmp(g, "proj")) { ed_rand(edx); ed_dbl(edx, edx); }
		else ed_rand(edx);
#endif
	} else if (!strcmp(type, "gt")) {
		if (!strcmp(g, "one")) gt_set_unity(gx);
		else if (!strcmp(g, "gen")) gt_get_gen(gx);
		else gt_rand(gx);
	}
}

/*============================================================================*/
/* Encoders / decoders by type                                                */
/*============================================================================*/

/* Advertised size of the generated object in the given format. */
static long size_obj(const char *type, int fmt) {
	if (!strcmp(type, "bn")) return (long)bn_size_bin(bx);
	if (!strcmp(type, "bnraw")) return (long)bn_size_raw(bx) * (long)sizeof(dig_t);
	if (!strcmp(type, "fp")) return RLC_FP_BYTES;
	if (!strcmp(type, "fp2")) return fp2_size_bin(f2x, fmt);
	if (!strcmp(type, "fp3")) return fp3_size_bin(f3x);
	if (!strcmp(type, "fp4")) return fp4_size_bin(f4x);
	if (!strcmp(type, "fp6")) return fp6_size_bin(f6x);
	if (!strcmp(type, "fp8")) return fp8_size_bin(f8x, fmt);
	if (!strcmp(type, "fp12")) return fp12_size_bin(f12x, fmt);
#define HI_SIZE0(T) T##_size_bin(hx_##T)
#define HI_SIZE1(T) T##_size_bin(hx_##T, fmt)
#define HI_SIZE(T, N, P, K) if (!strcmp(type, #T)) return HI_SIZE##P(T);
	HI_TOWERS(HI_SIZE)
	if (!strcmp(type, "fb")) return RLC_FB_BYTES;
	if (!strcmp(type, "ep")) return (long)ep_size_bin(ex, fmt);
	if (!strcmp(type, "g1")) return (long)g1_size_bin(ex, fmt);
	if (!strcmp(type, "ep2")) return (long)ep2_size_bin(e2x, fmt);
	if (!strcmp(type, "g2")) return (long)g2_size_bin(e2x, fmt);
	if (!strcmp(type, "eb")) return (long)eb_size_bin(ebx, fmt);
	if (!strcmp(type, "gt")) return (long)gt_size_bin(gx, fmt);
#ifdef SIM_ED
	if (!strcmp(type, "ed")) return (long)ed_size_bin(edx, fmt);
#endif
	return -1;
}

/* which = 0: the generated object, 1: the decoded object */
static void write_obj(const char *type, int fmt, uint8_t *buf, size_t len, int which) {
	if (!strcmp(type, "bn")) bn_write_bin(buf, len, which ? by : bx);
	else if (!strcmp(type, "bnraw")) bn_write_raw((dig_t *)buf, len / sizeof(dig_t), which ? by : bx);
	else if (!strcmp(type, "fp")) fp_write_bin(buf, len, which ? fy : fx);
	else if (!strcmp(type, "fp2")) fp2_write_bin(buf, len, which ? f2y : f2x, fmt);
	else if (!strcmp(type, "fp3")) fp3_write_bin(buf, len, which ? f3y : f3x);
	else if (!strcmp(type, "fp4")) fp4_write_bin(buf, len, which ? f4y : f4x);
	else if (!strcmp(type, "fp6")) fp6_write_bin(buf, len, which ? f6y : f6x);
	else if (!strcmp(type, "fp8")) fp8_write_bin(buf, len, which ? f8y : f8x, fmt);
	else if (!strcmp(type, "fp12")) fp12_write_bin(buf, len, which ? f12y : f12x, fmt);
#define HI_WR0(T) T##_write_bin(buf, len, which ? hy_##T : hx_##T)
#define HI_WR1(T) T##_write_bin(buf, len, which ? hy_##T : hx_##T, fmt)
#define HI_WRITE(T, N, P, K) else if (!strcmp(type, #T)) HI_WR##P(T);
	HI_TOWERS(HI_WRITE)
	else if (!strcmp(type, "fb")) fb_write_bin(buf, len, which ? bfy : bfx);
	else if (!strcmp(type, "ep")) ep_write_bin(buf, len, which ? ey : ex, fmt);
	else if (!strcmp(type, "g1")) g1_write_bin(buf, len, which ? ey : ex, fmt);
	else if (!strcmp(type, "ep2")) ep2_write_bin(buf, len, which ? e2y : e2x, fmt);
	else if (!strcmp(type, "g2")) g2_write_bin(buf, len, which ? e2y : e2x, fmt);
	else if (!strcmp(type, "eb")) eb_write_bin(buf, len, which ? eby : ebx, fmt);
	else if (!strcmp(type, "gt")) gt_write_bin(buf, len, which ? gy : gx, fmt);
#ifdef SIM_ED
	else if (!strcmp(type, "ed")) ed_write_bin(buf, len, which ? edy : edx, fmt);
#endif
}

static void read_obj(const char *type, const uint8_t *buf, size_t len) {
	if (!strcmp(type, "bn")) bn_read_bin(by, buf, len);
	else if (!strcmp(type, "bnraw")) bn_read_raw(by, (const dig_t *)buf, len / sizeof(dig_t));
	else if (!strcmp(type, "fp")) fp_read_bin(fy, buf, len);
	else if (!strcmp(type, "fp2")) fp2_read_bin(f2y, buf, len);
	else if (!strcmp(type, "fp3")) fp3_read_bin(f3y, buf, len);
	else if (!strcmp(type, "fp4")) fp4_read_bin(f4y, buf, len);
	else if (!strcmp(type, "fp6")) fp6_read_bin(f6y, buf, len);
	else if (!strcmp(type, "fp8")) fp8_read_bin(f8y, buf, len);
	else if (!strcmp(type, "fp12")) fp12_read_bin(f12y, buf, len);
#define HI_READ(T, N, P, K) else if (!strcmp(type, #T)) T##_read_bin(hy_##T, buf, len);
	HI_TOWERS(HI_READ)
	else if (!strcmp(type, "fb")) fb_read_bin(bfy, buf, len);
	else if (!strcmp(type, "ep")) ep_read_bin(ey, buf, len);
	else if (!strcmp(type, "g1")) g1_read_bin(ey, buf, len);
	else if (!strcmp(type, "ep2")) ep2_read_bin(e2y, buf, len);
	else if (!strcmp(type, "g2")) g2_read_bin(e2y, buf, len);
	else if (!strcmp(type, "eb")) eb_read_bin(eby, buf, len);
	else if (!strcmp(type, "gt")) gt_read_bin(gy, buf, len);
#ifdef SIM_ED
	else if (!strcmp(type, "ed")) ed_read_bin(edy, buf, len);
#endif
}

/* decoded == generated ? */
static int same_obj(const char *type) {
	if (!strcmp(type, "bn") || !strcmp(type, "bnraw")) return bn_cmp(bx, by) == RLC_EQ;
	if (!strcmp(type, "fp")) return fp_cmp(fx, fy) == RLC_EQ;
	if (!strcmp(type, "fp2")) return fp2_cmp(f2x, f2y) == RLC_EQ;
	if (!strcmp(type, "fp3")) return fp3_cmp(f3x, f3y) == RLC_EQ;
	if (!strcmp(type, "fp4")) return fp4_cmp(f4x, f4y) == RLC_EQ;
	if (!strcmp(type, "fp6")) return fp6_cmp(f6x, f6y) == RLC_EQ;
	if (!strcmp(type, "fp8")) return fp8_cmp(f8x, f8y) == RLC_EQ;
	if (!strcmp(type, "fp12")) return fp12_cmp(f12x, f12y) == RLC_EQ;
#define HI_SAME(T, N, P, K) if (!strcmp(type, #T)) return T##_cmp(hx_##T, hy_##T) == RLC_EQ;
	HI_TOWERS(HI_SAME)
	if (!strcmp(type, "fb")) return fb_cmp(bfx, bfy) == RLC_EQ;
	if (!strcmp(type, "ep") || !strcmp(type, "g1")) return ep_cmp(ex, ey) == RLC_EQ;
	if (!strcmp(type, "ep2") || !strcmp(type, "g2")) return ep2_cmp(e2x, e2y) == RLC_EQ;
	if (!strcmp(type, "eb")) return eb_cmp(ebx, eby) == RLC_EQ;
	if (!strcmp(type, "gt")) return gt_cmp(gx, gy) == RLC_EQ;
#ifdef SIM_ED
	if (!strcmp(type, "ed")) return ed_cmp(edx, edy) == RLC_EQ;
#endif
	return 0;
}

/* The decoded format implied by the length of an encoding, per type. */
static int fmt_of_len(const char *type, size_t len) {
	if (!strcmp(type, "ep") || !strcmp(type, "g1")) return len == RLC_FP_BYTES + 1;
	if (!strcmp(type, "ep2") || !strcmp(type, "g2")) return len == 2 * RLC_FP_BYTES + 1;
	if (!strcmp(type, "eb")) return len == RLC_FB_BYTES + 1;
	if (!strcmp(type, "ed")) return len == RLC_FP_BYTES + 1;
	if (!strcmp(type, "fp2")) return len == RLC_FP_BYTES + 1;
	if (!strcmp(type, "fp8")) return len != 8 * RLC_FP_BYTES;
	if (!strcmp(type, "fp12") || !strcmp(type, "gt")) return len == 8 * RLC_FP_BYTES;
#define HI_FMT(T, N, P, K) if (!strcmp(type, #T)) return K != 0 && len == (size_t)K * RLC_FP_BYTES;
	HI_TOWERS(HI_FMT)
	return 0;
}

static int type_ok(const char *type) {
	if ((!strcmp(type, "ep2") || !strcmp(type, "g2") || !strcmp(type, "gt") || !strcmp(type, "g1")) && !has_pc) return 0;
	if ((!strcmp(type, "eb") || !strcmp(type, "fb")) && !has_eb) return 0;
	if (!strcmp(type, "ed") && !has_ed) return 0;
	return 1;
}

/*============================================================================*/

static void engine_boot(void) {
	uint8_t seed[64];
	memset(seed, 0x77, sizeof(seed));
	sim_dev_reset(&sim_dev_main, seed, sizeof(seed), 11);
	if (core_init() != RLC_OK) _exit(4);
	bn_null(bx); bn_null(by); bn_new(bx); bn_new(by);
	fp_null(fx); fp_null(fy); fp_new(fx); fp_new(fy);
	fp2_null(f2x); fp2_null(f2y); fp2_new(f2x); fp2_new(f2y);
	fp3_null(f3x); fp3_null(f3y); fp3_new(f3x); fp3_new(f3y);
	fp4_null(f4x); fp4_null(f4y); fp4_new(f4x); fp4_new(f4y);
	fp6_null(f6x); fp6_null(f6y); fp6_new(f6x); fp6_new(f6y);
	fp8_null(f8x); fp8_null(f8y); fp8_new(f8x); fp8_new(f8y);
	fp12_null(f12x); fp12_null(f12y); fp12_new(f12x); fp12_new(f12y);
#define HI_INIT(T, N, P, K) T##_null(hx_##T); T##_null(hy_##T); T##_new(hx_##T); T##_new(hy_##T);
	HI_TOWERS(HI_INIT)
	fb_null(bfx); fb_null(bfy); fb_new(bfx); fb_new(bfy);
	ep_null(ex); ep_null(ey); ep_new(ex); ep_new(ey);
	ep2_null(e2x); ep2_null(e2y); ep2_new(e2x); ep2_new(e2y);
	eb_null(ebx); eb_null(eby); eb_new(ebx); eb_new(eby);
	gt_null(gx); gt_null(gy); gt_new(gx); gt_new(gy);
	if (eb_param_set_any() == RLC_OK) has_eb = 1;
	(void)err_get_code();
#ifdef SIM_ED
	ed_null(edx); ed_null(edy); ed_new(edx); ed_new(edy);
#endif
}

static void apply_fault(slot_t *s, const char *kind, long a, long b, int src) {
	size_t len = s->len;
	if (!strcmp(kind, "flip")) {
		if (len) s->p[(a / 8) % len] ^= (uint8_t)(1 << (a % 8));
	} else if (!strcmp(kind, "set")) {
		if (len) s->p[a % len] = (uint8_t)b;
	} else if (!strcmp(kind, "tag")) {
		if (len) s->p[0] = (uint8_t)a;
	} else if (!strcmp(kind, "last")) {
		if (len) s->p[len - 1] = (uint8_t)a;
	} else if (!strcmp(kind, "trunc")) {
		size_t nl = len ? (size_t)a % (len + 1) : 0;
		uint8_t *np = (uint8_t *)malloc(nl ? nl : 1);
		memcpy(np, s->p, nl);
		free(s->p); s->p = np; s->len = nl;
	} else if (!strcmp(kind, "cut")) {
		/* drop a bytes from the front (torn write that lost its head) */
		size_t d = len ? (size_t)a % (len + 1) : 0;
		uint8_t *np = (uint8_t *)malloc(len - d ? len - d : 1);
		memcpy(np, s->p + d, len - d);
		free(s->p); s->p = np; s->len = len - d;
	} else if (!strcmp(kind, "extend")) {
		size_t add = 1 + (size_t)a % 40;
		uint8_t *np = (uint8_t *)malloc(len + add);
		memcpy(np, s->p, len);
		memset(np + len, (int)b, add);
		free(s->p); s->p = np; s->len = len + add;
	} else if (!strcmp(kind, "prefix")) {
		/* zero-prefixed (or b-prefixed) longer encoding */
		size_t add = 1 + (size_t)a % 8;
		uint8_t *np = (uint8_t *)malloc(len + add);
		memset(np, (int)b, add);
		memcpy(np + add, s->p, len);
		free(s->p); s->p = np; s->len = len + add;
	} else if (!strcmp(kind, "zero")) {
		memset(s->p, 0, len);
	} else if (!strcmp(kind, "ff")) {
		memset(s->p, 0xFF, len);
	} else if (!strcmp(kind, "splice")) {
		/* copy a run of bytes from another slot (misdirected write) */
		if (src >= 0 && slots[src].used && slots[src].len && len) {
			size_t off = (size_t)a % len, n = 1 + (size_t)b % len;
			for (size_t i = 0; i < n && off + i < len; i++) s->p[off + i] = slots[src].p[(off + i) % slots[src].len];
		}
	} else if (!strcmp(kind, "replace")) {
		if (src >= 0 && slots[src].used) {
			uint8_t *np = (uint8_t *)malloc(slots[src].len ? slots[src].len : 1);
			memcpy(np, slots[src].p, slots[src].len);
			free(s->p); s->p = np; s->len = slots[src].len;
		}
	} else if (!strcmp(kind, "setp")) {
		/* a field-sized big-endian window := p + b (b may be negative), at window index a */
		if (len >= RLC_FP_BYTES) {
			size_t nwin = (len - (len % RLC_FP_BYTES ? 1 : 0)) / RLC_FP_BYTES;
			size_t off = (len % RLC_FP_BYTES ? 1 : 0) + ((size_t)a % (nwin ? nwin : 1)) * RLC_FP_BYTES;
			bn_t p;
			bn_null(p); bn_new(p);
			p->used = RLC_FP_DIGS;
			dv_copy(p->dp, fp_prime_get(), RLC_FP_DIGS);
			bn_trim(p);
			if (b >= 0) bn_add_dig(p, p, (dig_t)b); else bn_sub_dig(p, p, (dig_t)(-b));
			if (bn_size_bin(p) <= RLC_FP_BYTES && off + RLC_FP_BYTES <= len) bn_write_bin(s->p + off, RLC_FP_BYTES, p);
			bn_free(p);
		}
	} else if (!strcmp(kind, "inc")) {
		/* big-endian +b on the field-sized window with index a */
		size_t unit = (!strcmp(s->type, "eb") || !strcmp(s->type, "fb")) ? RLC_FB_BYTES : RLC_FP_BYTES;
		if (len >= unit) {
			size_t lead = len % unit ? 1 : 0;
			size_t nwin = (len - lead) / unit;
			size_t off = lead + ((size_t)a % (nwin ? nwin : 1)) * unit;
			long carry = b;
			for (long i = (long)(off + unit) - 1; i >= (long)off && carry; i--) {
				long v = s->p[i] + carry;
				s->p[i] = (uint8_t)v;
				carry = v >> 8;
			}
		}
	} else if (!strcmp(kind, "negc")) {
		/* the field-sized window with index a := p - window (one coordinate negated: the conjugate of an
		 * extension-field coordinate, the other root of y^2, ...) */
		if (len >= RLC_FP_BYTES) {
			size_t lead = len % RLC_FP_BYTES ? 1 : 0;
			size_t nwin = (len - lead) / RLC_FP_BYTES;
			size_t off = lead + ((size_t)a % (nwin ? nwin : 1)) * RLC_FP_BYTES;
			bn_t p, c;
			bn_null(p); bn_null(c); bn_new(p); bn_new(c);
			p->used = RLC_FP_DIGS;
			dv_copy(p->dp, fp_prime_get(), RLC_FP_DIGS);
			bn_trim(p);
			bn_read_bin(c, s->p + off, RLC_FP_BYTES);
			if (!bn_is_zero(c) && bn_cmp(c, p) == RLC_LT) {
				bn_sub(c, p, c);
				bn_write_bin(s->p + off, RLC_FP_BYTES, c);
			}
			bn_free(p); bn_free(c);
		}
	} else if (!strcmp(kind, "addp")) {
		/* the field-sized window with index a := window + p when that still fits the window: the same residue, written
		 * with its other representative - every equation over the field holds for it, only the range check can tell */
		if (len >= RLC_FP_BYTES) {
			size_t lead = len % RLC_FP_BYTES ? 1 : 0;
			size_t nwin = (len - lead) / RLC_FP_BYTES;
			size_t off = lead + ((size_t)a % (nwin ? nwin : 1)) * RLC_FP_BYTES;
			bn_t p, c;
			bn_null(p); bn_null(c); bn_new(p); bn_new(c);
			p->used = RLC_FP_DIGS;
			dv_copy(p->dp, fp_prime_get(), RLC_FP_DIGS);
			bn_trim(p);
			bn_read_bin(c, s->p + off, RLC_FP_BYTES);
			bn_add(c, c, p);
			if (bn_size_bin(c) <= RLC_FP_BYTES) bn_write_bin(s->p + off, RLC_FP_BYTES, c);
			bn_free(p); bn_free(c);
		}
	} else if (!strcmp(kind, "winff")) {
		size_t unit = (!strcmp(s->type, "eb") || !strcmp(s->type, "fb")) ? RLC_FB_BYTES : RLC_FP_BYTES;
		if (len >= unit) {
			size_t lead = len % unit ? 1 : 0;
			size_t nwin = (len - lead) / unit;
			size_t off = lead + ((size_t)a % (nwin ? nwin : 1)) * unit;
			memset(s->p + off, 0xFF, unit);
		}
	}
}

static void engine_run(void) {
	char *line, *tok[16];
	static uint8_t buf[8192], buf2[8192];
	for (int i = 0; i < NSLOT; i++) {
		if (slots[i].p) free(slots[i].p);
		slots[i].p = NULL; slots[i].len = 0; slots[i].used = 0;
	}
	for (int i = 0; i < 32; i++) x_owner[i] = -1;
	(void)err_get_code();
	while ((line = plan_next_line()) != NULL) {
		int n = plan_split(line, tok, 16);
		if (n == 0) continue;
		if (!strcmp(tok[0], "ENTROPY")) {
			long l = hex_decode(tok[1], buf, 256);
			if (l <= 0) { buf[0] = 1; l = 1; }
			sim_reseed_fresh(buf, (size_t)l);
		} else if (!strcmp(tok[0], "CURVE")) {
			int r = set_curve(tok[1]);
			tr_printf("CURVE %s %d pc=%d eb=%d\n", tok[1], r, has_pc, has_eb);
			if (r == 0) print_params();
		} else if (!strcmp(tok[0], "ENC") && n >= 5) {
			int s = atoi(tok[1]) % NSLOT;
			const char *type = tok[2];
			int fmt = atoi(tok[3]);
			if (!type_ok(type)) { tr_printf("ENC %d %s skipped\n", s, type); continue; }
			int thrown = 0;
			long need = -1;
			size_t alt_len = 0;
			int alt = 0;
			RLC_TRY {
				gen_obj(type, tok[4]);
				need = size_obj(type, fmt);
				if (need >= 0 && need <= (long)sizeof(buf)) {
					/* exact-size heap block: any overrun is an ASan report */
					uint8_t *hb = (uint8_t *)malloc(need ? (size_t)need : 1);
					memset(hb, 0xA5, need ? (size_t)need : 1);
					write_obj(type, fmt, hb, (size_t)need, 0);
					memcpy(buf, hb, (size_t)need);
					free(hb);
					/* canonical: another internal representation of the same value */
					if (!strcmp(tok[4], "proj")) {
						if (!strcmp(type, "ep") || !strcmp(type, "g1")) { ep_norm(ey, ex); ep_copy(ex, ey); alt = 1; }
						if (!strcmp(type, "ep2") || !strcmp(type, "g2")) { ep2_norm(e2y, e2x); ep2_copy(e2x, e2y); alt = 1; }
						if (!strcmp(type, "eb")) { eb_norm(eby, ebx); eb_copy(ebx, eby); alt = 1; }
#ifdef SIM_ED
						if (!strcmp(type, "ed")) { ed_norm(edy, edx); ed_copy(edx, edy); alt = 1; }
#endif
						if (alt) {
							alt_len = (size_t)size_obj(type, fmt);
							write_obj(type, fmt, buf2, alt_len, 0);
						}
					}
				}
			} RLC_CATCH_ANY {
				thrown = 1;
			}
			int code = err_get_code() != RLC_OK;
			if (thrown || code || need < 0) {
				tr_printf("ENC %d %s %d %s err thrown=%d code=%d need=%ld\n", s, type, fmt, tok[4], thrown, code, need);
				slots[s].used = 0;
				continue;
			}
			slot_set(s, buf, (size_t)need);
			for (int i = 0; i <= NFAM; i++) if (x_owner[i] == s) x_owner[i] = -1;
			x_owner[fam_of(type)] = s;
			snprintf(slots[s].type, sizeof(slots[s].type), "%s", type);
			slots[s].fmt = fmt;
			tr_printf("ENC %d %s %d %s ok len=%ld enc=", s, type, fmt, tok[4], need);
			tr_hex(buf, (size_t)need);
			if (alt) { tr_str(" alt="); tr_hex(buf2, alt_len); }
			tr_str("\n");
		} else if (!strcmp(tok[0], "RAW") && n >= 4) {
			/* bytes built by the orchestrator (structured points the generators cannot reach) placed in a slot */
			int s = atoi(tok[1]) % NSLOT;
			long l = hex_decode(tok[3], buf, sizeof(buf));
			if (l < 0 || !type_ok(tok[2])) { tr_printf("RAW %d %s none\n", s, tok[2]); continue; }
			slot_set(s, buf, (size_t)l);
			for (int i = 0; i <= NFAM; i++) if (x_owner[i] == s) x_owner[i] = -1;
			snprintf(slots[s].type, sizeof(slots[s].type), "%s", tok[2]);
			slots[s].fmt = fmt_of_len(tok[2], (size_t)l);
			tr_printf("RAW %d %s len=%ld now=", s, tok[2], l);
			tr_hex(buf, (size_t)l);
			tr_str("\n");
		} else if (!strcmp(tok[0], "XCODE") && n >= 4) {
			/* the object decoded last becomes the reference object and is encoded in the other format: a
			 * decode -> encode -> decode history across formats */
			int s = atoi(tok[1]) % NSLOT, fmt = atoi(tok[3]);
			const char *type = tok[2];
			int thrown = 0;
			long need = -1;
			if (!type_ok(type) || strcmp(last_dec_type, type) != 0) { tr_printf("ENC %d %s skipped\n", s, type); continue; }
			if (!strcmp(type, "ep") || !strcmp(type, "g1")) ep_copy(ex, ey);
			else if (!strcmp(type, "ep2") || !strcmp(type, "g2")) ep2_copy(e2x, e2y);
			else if (!strcmp(type, "eb")) eb_copy(ebx, eby);
#ifdef SIM_ED
			else if (!strcmp(type, "ed")) ed_copy(edx, edy);
#endif
			else { tr_printf("ENC %d %s skipped\n", s, type); continue; }
			RLC_TRY {
				need = size_obj(type, fmt);
				if (need >= 0 && (size_t)need <= sizeof(buf)) write_obj(type, fmt, buf, (size_t)need, 0);
			} RLC_CATCH_ANY {
				thrown = 1;
			}
			int code = err_get_code() != RLC_OK;
			if (thrown || code || need < 0) {
				tr_printf("ENC %d %s %d xcode err thrown=%d code=%d need=%ld\n", s, type, fmt, thrown, code, need);
				slots[s].used = 0;
				continue;
			}
			slot_set(s, buf, (size_t)need);
			for (int i = 0; i <= NFAM; i++) if (x_owner[i] == s) x_owner[i] = -1;
			x_owner[fam_of(type)] = s;
			snprintf(slots[s].type, sizeof(slots[s].type), "%s", type);
			slots[s].fmt = fmt;
			tr_printf("ENC %d %s %d xcode ok len=%ld enc=", s, type, fmt, need);
			tr_hex(buf, (size_t)need);
			tr_str("\n");
		} else if (!strcmp(tok[0], "FAULT") && n >= 5) {
			int s = atoi(tok[1]) % NSLOT;
			if (!slots[s].used) { tr_printf("FAULT %d none\n", s); continue; }
			apply_fault(&slots[s], tok[2], strtol(tok[3], NULL, 10), strtol(tok[4], NULL, 10), n > 5 ? atoi(tok[5]) % NSLOT : -1);
			tr_printf("FAULT %d %s now=", s, tok[2]);
			tr_hex(slots[s].p, slots[s].len);
			tr_str("\n");
		} else if (!strcmp(tok[0], "PRE") && n >= 3) {
			/* what the destination object of the next decode holds: a decoder that leaves part of its output
			 * unwritten on a failure path lets the stale content decide the verdict */
			const char *type = tok[1];
			int inf = !strcmp(tok[2], "inf");
			if (!type_ok(type)) continue;
			RLC_TRY {
				if (!strcmp(type, "ep") || !strcmp(type, "g1")) { if (inf) ep_set_infty(ey); else ep_curve_get_gen(ey); }
				else if (!strcmp(type, "ep2") || !strcmp(type, "g2")) { if (inf) ep2_set_infty(e2y); else ep2_curve_get_gen(e2y); }
				else if (!strcmp(type, "eb")) { if (inf) eb_set_infty(eby); else eb_curve_get_gen(eby); }
#ifdef SIM_ED
				else if (!strcmp(type, "ed")) { if (inf) ed_set_infty(edy); else ed_curve_get_gen(edy); }
#endif
				else if (!strcmp(type, "bn") || !strcmp(type, "bnraw")) { if (inf) bn_zero(by); else { bn_set_2b(by, RLC_BN_BITS - 1); bn_neg(by, by); } }
				else if (!strcmp(type, "fp")) { if (inf) fp_zero(fy); else fp_set_dig(fy, 1); }
				else if (!strcmp(type, "fb")) { if (inf) fb_zero(bfy); else fb_set_dig(bfy, 1); }
				else if (!strcmp(type, "gt")) { if (inf) gt_set_unity(gy); else gt_get_gen(gy); }
			} RLC_CATCH_ANY { }
			(void)err_get_code();
		} else if (!strcmp(tok[0], "DEC") && n >= 3) {
			int s = atoi(tok[1]) % NSLOT;
			const char *type = tok[2];
			if (!slots[s].used || !type_ok(type)) { tr_printf("DEC %d %s none\n", s, type); continue; }
			size_t len = slots[s].len;
			/* the packed (cyclotomic) forms of the towers of degree 18..54 need the arithmetic of a pairing-friendly
			 * prime of that embedding degree, which none of the configured primes is (relic hard-codes their
			 * Frobenius constants): an encoding of exactly that length is not handed to the decoder */
#define HI_SKIP(T, N, P, K) if (!strcmp(type, #T) && K != 0 && len == (size_t)K * RLC_FP_BYTES) { tr_printf("DEC %d %s none\n", s, type); continue; }
			HI_TOWERS(HI_SKIP)
			/* exact-size heap copy: an over-read is an ASan report */
			uint8_t *in = (uint8_t *)malloc(len ? len : 1);
			memcpy(in, slots[s].p, len);
			int thrown = 0, thrown2 = 0;
			RLC_TRY {
				read_obj(type, in, len);
			} RLC_CATCH_ANY {
				thrown = 1;
			}
			int code = err_get_code() != RLC_OK;
			free(in);
			if (thrown || code) {
				tr_printf("DEC %d %s err thrown=%d code=%d len=%zu\n", s, type, thrown, code, len);
				last_dec_type[0] = 0;
				continue;
			}
			int fmt = fmt_of_len(type, len);
			int same = (strcmp(type, slots[s].type) == 0 && x_owner[fam_of(type)] == s) ? same_obj(type) : -1;
			snprintf(last_dec_type, sizeof(last_dec_type), "%s", type);
			uint8_t *ob = (uint8_t *)malloc(len ? len : 1);
			memset(ob, 0x5A, len ? len : 1);
			RLC_TRY {
				write_obj(type, fmt, ob, len, 1);
			} RLC_CATCH_ANY {
				thrown2 = 1;
			}
			int code2 = err_get_code() != RLC_OK;
			/* the packed form of a target-group element only exists for members of the cyclotomic subgroup: what a decode of
			 * the packed length yields is tested with the library's own predicate (the python model has no F_p^12) */
			int cyc = -1;
			if (len == 8 * RLC_FP_BYTES && has_pc) {
				if (!strcmp(type, "fp12")) cyc = fp12_test_cyc(f12y);
#if FP_PRIME != 255
				else if (!strcmp(type, "gt")) cyc = fp12_test_cyc((void *)gy);
#endif
				(void)err_get_code();
			}
			tr_printf("DEC %d %s ok len=%zu same=%d rethrown=%d recode=%d cyc=%d re=", s, type, len, same, thrown2, code2, cyc);
			tr_hex(ob, strcmp(type, "bnraw") ? len : len - len % sizeof(dig_t));
			tr_str("\n");
			free(ob);
		} else if (!strcmp(tok[0], "CAPW") && n >= 5) {
			const char *type = tok[1];
			int fmt = atoi(tok[2]);
			long delta = strtol(tok[4], NULL, 10);
			if (!type_ok(type)) { tr_printf("CAPW %s skipped\n", type); continue; }
			int thrown = 0;
			long need = -1;
			RLC_TRY {
				gen_obj(type, tok[3]);
				need = size_obj(type, fmt);
			} RLC_CATCH_ANY {
				thrown = 1;
			}
			(void)err_get_code();
			if (thrown || need < 0) { tr_printf("CAPW %s gen-failed\n", type); continue; }
			long cap = need + delta;
			if (cap < 0) cap = 0;
			if (!strcmp(type, "bnraw")) cap -= cap % (long)sizeof(dig_t);
			uint8_t *blk = (uint8_t *)malloc((size_t)cap + 2 * CAN);
			memset(blk, 0xC3, (size_t)cap + 2 * CAN);
			thrown = 0;
			RLC_TRY {
				write_obj(type, fmt, blk + CAN, (size_t)cap, 0);
			} RLC_CATCH_ANY {
				thrown = 1;
			}
			int code = err_get_code() != RLC_OK;
			int canary = 1;
			for (int i = 0; i < CAN; i++) { if (blk[i] != 0xC3 || blk[CAN + cap + i] != 0xC3) canary = 0; }
			tr_printf("CAPW %s %d %s need=%ld cap=%ld thrown=%d code=%d canary=%d out=", type, fmt, tok[3], need, cap,
					thrown, code, canary);
			tr_hex(blk + CAN, (size_t)cap);
			tr_str("\n");
			free(blk);
		} else if (!strcmp(tok[0], "BNSTR") && n >= 3) {
			int radix = atoi(tok[1]);
			int thrown = 0;
			size_t sz = 0;
			char *str = NULL;
			int eq = 0;
			long delta = n > 3 ? strtol(tok[3], NULL, 10) : 0;
			RLC_TRY {
				gen_obj("bn", tok[2]);
				sz = bn_size_str(bx, (uint_t)radix);
			} RLC_CATCH_ANY {
				thrown = 1;
			}
			int code = err_get_code() != RLC_OK;
			if (thrown || code) { tr_printf("BNSTR %d size-err thrown=%d code=%d\n", radix, thrown, code); continue; }
			long cap = (long)sz + delta;
			if (cap < 0) cap = 0;
			str = (char *)malloc((size_t)cap + 2 * CAN);
			memset(str, 0xC3, (size_t)cap + 2 * CAN);
			RLC_TRY {
				bn_write_str(str + CAN, (size_t)cap, bx, (uint_t)radix);
			} RLC_CATCH_ANY {
				thrown = 1;
			}
			code = err_get_code() != RLC_OK;
			int canary = 1;
			for (int i = 0; i < CAN; i++) { if ((uint8_t)str[i] != 0xC3 || (uint8_t)str[CAN + cap + i] != 0xC3) canary = 0; }
			size_t sl = 0;
			int term = 0;
			for (long i = 0; i < cap; i++) { if (str[CAN + i] == 0) { term = 1; break; } sl++; }
			int thrown2 = 0;
			if (!thrown && !code && term) {
				RLC_TRY {
					bn_read_str(by, str + CAN, sl, (uint_t)radix);
					eq = bn_cmp(bx, by) == RLC_EQ;
				} RLC_CATCH_ANY {
					thrown2 = 1;
				}
			}
			int code2 = err_get_code() != RLC_OK;
			{
				size_t l = bn_size_bin(bx);
				bn_write_bin(buf, l, bx);
				tr_printf("BNSTR %d %s size=%zu cap=%ld thrown=%d code=%d canary=%d term=%d rd_thrown=%d rd_code=%d eq=%d sign=%d val=",
						radix, tok[2], sz, cap, thrown, code, canary, term, thrown2, code2, eq, bn_sign(bx) == RLC_NEG);
				tr_hex(buf, l);
				tr_str(" str=");
				tr_hex((uint8_t *)str + CAN, (!thrown && !code && term) ? sl : 0);
				tr_str("\n");
			}
			free(str);
		} else if (!strcmp(tok[0], "RDSTR") && n >= 3) {
			int radix = atoi(tok[1]);
			long l = hex_decode(tok[2], buf, 4096);
			if (l < 0) l = 0;
			/* exact-size heap block holding the characters and the terminator */
			char *str = (char *)malloc((size_t)l + 1);
			memcpy(str, buf, (size_t)l);
			str[l] = 0;
			int thrown = 0;
			RLC_TRY {
				bn_read_str(by, str, (size_t)l, (uint_t)radix);
			} RLC_CATCH_ANY {
				thrown = 1;
			}
			int code = err_get_code() != RLC_OK;
			free(str);
			if (thrown || code) {
				tr_printf("RDSTR %d err thrown=%d code=%d\n", radix, thrown, code);
			} else {
				size_t bl = bn_size_bin(by);
				bn_write_bin(buf2, bl, by);
				tr_printf("RDSTR %d ok sign=%d val=", radix, bn_sign(by) == RLC_NEG);
				tr_hex(buf2, bl);
				tr_str("\n");
			}
		} else if (!strcmp(tok[0], "FPSTR") && n >= 3) {
			int radix = atoi(tok[1]);
			int thrown = 0, eq = 0;
			size_t sz = 0;
			char str[RLC_FP_BITS + 8];
			memset(str, 0, sizeof(str));
			RLC_TRY {
				gen_fp(fx, tok[2]);
				sz = fp_size_str(fx, (uint_t)radix);
				if (sz <= sizeof(str)) {
					fp_write_str(str, sz, fx, (uint_t)radix);
					fp_read_str(fy, str, strlen(str), (uint_t)radix);
					eq = fp_cmp(fx, fy) == RLC_EQ;
				}
			} RLC_CATCH_ANY {
				thrown = 1;
			}
			int code = err_get_code() != RLC_OK;
			fp_write_bin(buf, RLC_FP_BYTES, fx);
			tr_printf("FPSTR %d %s size=%zu thrown=%d code=%d eq=%d val=", radix, tok[2], sz, thrown, code, eq);
			tr_hex(buf, RLC_FP_BYTES);
			tr_str(" str=");
			tr_hex((uint8_t *)str, strlen(str));
			tr_str("\n");
		}
	}
}
