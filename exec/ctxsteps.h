/*
 * Step library shared by ctxsim and thrsim: parameter selections, work items that touch the
 * library's derived state and caches, intentional failures, and the layered probe
 * (DESIGN.md 3.6.2 - 3.6.4).  Every step appends one line "<tag> <hex...>" to the transcript of
 * the running script; nothing here depends on addresses, time or the scheduler.
 */
#ifndef CTXSTEPS_H
#define CTXSTEPS_H

static int cs_curve_id(const char *name) {
	if (!strcmp(name, "NIST_P256")) return NIST_P256;
	if (!strcmp(name, "BSI_P256")) return BSI_P256;
	if (!strcmp(name, "SM2_P256")) return SM2_P256;
	if (!strcmp(name, "SECG_K256")) return SECG_K256;
	if (!strcmp(name, "SM9_P256")) return SM9_P256;
	if (!strcmp(name, "BN_P256")) return BN_P256;
	return -1;
}

static void cs_hex_ep(const char *tag, const ep_t p) {
	uint8_t t[2 * RLC_FP_BYTES + 1];
	size_t l = ep_size_bin(p, 0);
	ep_write_bin(t, l, p, 0);
	tr_printf(" %s=", tag);
	tr_hex(t, l);
}

static void cs_hex_fp(const char *tag, const fp_t a) {
	uint8_t t[RLC_FP_BYTES];
	fp_write_bin(t, RLC_FP_BYTES, a);
	tr_printf(" %s=", tag);
	tr_hex(t, RLC_FP_BYTES);
}

static void cs_hex_bn(const char *tag, const bn_t a) {
	uint8_t t[RLC_BN_SIZE * 8];
	size_t l = bn_size_bin(a);
	bn_write_bin(t, l, a);
	tr_printf(" %s=", tag);
	tr_hex(t, l);
}

static void cs_scalar(bn_t k, const char *hex) {
	uint8_t b[64];
	long l = hex_decode(hex, b, sizeof(b));
	if (l <= 0) { b[0] = 7; l = 1; }
	bn_read_bin(k, b, (size_t)l);
}

/* Probe of the prime field alone (after a field-only selection the curve layer is stale by contract). */
static void cs_probe_l0(void) {
	bn_t k, l;
	fp_t a, b, c;
	bn_null(k); bn_null(l); fp_null(a); fp_null(b); fp_null(c);
	RLC_TRY {
		bn_new(k); bn_new(l); fp_new(a); fp_new(b); fp_new(c);
		tr_printf("P0 id=%d", fp_param_get());
		bn_set_dig(k, 0xABCDE); bn_lsh(k, k, 180); bn_add_dig(k, k, 0x777);
		fp_prime_conv(a, k);
		bn_set_dig(l, 0x31337); bn_lsh(l, l, 97); bn_add_dig(l, l, 5);
		fp_prime_conv(b, l);
		fp_mul(c, a, b); cs_hex_fp("mul", c);
		fp_inv(c, a); cs_hex_fp("inv", c);
		fp_sqr(c, b);
		int sr = fp_srt(c, c);
		fp_sqr(c, c); tr_printf(" srt=%d", sr); cs_hex_fp("srt2", c);
		tr_printf(" smb=%d", fp_smb(a));
		fp_exp(c, a, l); cs_hex_fp("exp", c);
		fp_prime_back(k, c); cs_hex_bn("back", k);
		tr_printf(" qnr=%d cnr=%d\n", fp_prime_get_qnr(), fp_prime_get_cnr());
	} RLC_CATCH_ANY {
		tr_str(" THROWN\n");
	} RLC_FINALLY {
		bn_free(k); bn_free(l); fp_free(a); fp_free(b); fp_free(c);
	}
	tr_printf("P0code %d\n", err_get_code() != RLC_OK);
}

/* Probe of the prime field + prime curve layer: every derived constant takes part. */
static void cs_probe_l1(void) {
	bn_t k, l, n;
	fp_t a, b, c;
	ep_t p, q, r;
	ep_t tab[RLC_EP_TABLE_MAX];
	uint8_t seed[16];
	bn_null(k); bn_null(l); bn_null(n); fp_null(a); fp_null(b); fp_null(c); ep_null(p); ep_null(q); ep_null(r);
	memset(seed, 0x11, sizeof(seed));
	RLC_TRY {
		bn_new(k); bn_new(l); bn_new(n); fp_new(a); fp_new(b); fp_new(c); ep_new(p); ep_new(q); ep_new(r);
		for (int i = 0; i < RLC_EP_TABLE_MAX; i++) { ep_null(tab[i]); ep_new(tab[i]); }
		sim_reseed_fresh(seed, sizeof(seed));
		tr_printf("P1 id=%d", ep_param_get());
		/* field: multiplication, inversion (precomputed inversion constants), square root, symbol, exponentiation */
		bn_set_dig(k, 0xABCDE); bn_lsh(k, k, 180); bn_add_dig(k, k, 0x777);
		fp_prime_conv(a, k);
		bn_set_dig(l, 0x31337); bn_lsh(l, l, 97); bn_add_dig(l, l, 5);
		fp_prime_conv(b, l);
		fp_mul(c, a, b); cs_hex_fp("mul", c);
		fp_inv(c, a); cs_hex_fp("inv", c);
		fp_sqr(c, b);
		int sr = fp_srt(c, c);
		fp_sqr(c, c); tr_printf(" srt=%d", sr); cs_hex_fp("srt2", c);
		tr_printf(" smb=%d", fp_smb(a));
		fp_exp(c, a, l); cs_hex_fp("exp", c);
		/* curve: generator table, variable base, simultaneous, fixed-base table of another point, hashing, compression */
		ep_curve_get_ord(n);
		ep_mul_gen(p, k); cs_hex_ep("mulgen", p);
		ep_mul_dig(q, p, 3);
		ep_mul(r, q, l); cs_hex_ep("mul", r);
		ep_mul_sim(r, p, k, q, l); cs_hex_ep("sim", r);
		ep_mul_lwreg(r, q, l); cs_hex_ep("reg", r);
		ep_mul_pre(tab, q);
		ep_mul_fix(r, (const ep_t *)tab, k); cs_hex_ep("fix", r);
		ep_map(r, (const uint8_t *)"probe", 5); cs_hex_ep("map", r);
		{
			uint8_t cb[RLC_FP_BYTES + 1];
			ep_write_bin(cb, RLC_FP_BYTES + 1, r, 1);
			ep_read_bin(q, cb, RLC_FP_BYTES + 1);
			tr_printf(" pck=%d", ep_cmp(q, r) == RLC_EQ);
		}
		tr_printf(" oncurve=%d", ep_on_curve(r));
		/* one signature with the curve's order */
		{
			bn_t d, rr, ss;
			ec_t pk;
			bn_null(d); bn_null(rr); bn_null(ss); ec_null(pk);
			bn_new(d); bn_new(rr); bn_new(ss); ec_new(pk);
			cp_ecdsa_gen(d, pk);
			cp_ecdsa_sig(rr, ss, (const uint8_t *)"probe", 5, 0, d);
			cs_hex_bn("sigr", rr);
			tr_printf(" ver=%d", cp_ecdsa_ver(rr, ss, (const uint8_t *)"probe", 5, 0, pk));
			bn_free(d); bn_free(rr); bn_free(ss); ec_free(pk);
		}
		tr_str("\n");
	} RLC_CATCH_ANY {
		tr_str(" THROWN\n");
	} RLC_FINALLY {
		bn_free(k); bn_free(l); bn_free(n); fp_free(a); fp_free(b); fp_free(c); ep_free(p); ep_free(q); ep_free(r);
		for (int i = 0; i < RLC_EP_TABLE_MAX; i++) { ep_free(tab[i]); }
	}
	tr_printf("P1code %d\n", err_get_code() != RLC_OK);
}

/* Probe of the pairing stack (meaningful only after a pairing-friendly selection). */
static void cs_probe_l2(void) {
	bn_t k, d;
	g1_t p, s;
	g2_t q, pk;
	gt_t e, f;
	uint8_t seed[16], buf[12 * RLC_FP_BYTES];
	bn_null(k); bn_null(d); g1_null(p); g1_null(s); g2_null(q); g2_null(pk); gt_null(e); gt_null(f);
	memset(seed, 0x22, sizeof(seed));
	RLC_TRY {
		bn_new(k); bn_new(d); g1_new(p); g1_new(s); g2_new(q); g2_new(pk); gt_new(e); gt_new(f);
		sim_reseed_fresh(seed, sizeof(seed));
		bn_set_dig(k, 0xC0FFEE); bn_lsh(k, k, 150); bn_add_dig(k, k, 99);
		tr_str("P2");
		g1_mul_gen(p, k); cs_hex_ep("g1mulgen", p);
		g2_mul_gen(q, k);
		{
			size_t l = g2_size_bin(q, 0);
			g2_write_bin(buf, l, q, 0);
			tr_str(" g2mulgen="); tr_hex(buf, l);
		}
		g2_map(pk, (const uint8_t *)"probe", 5);
		{
			size_t l = g2_size_bin(pk, 1);
			g2_write_bin(buf, l, pk, 1);
			tr_str(" g2map="); tr_hex(buf, l);
		}
		pc_map(e, p, q);
		gt_write_bin(buf, 12 * RLC_FP_BYTES, e, 0);
		tr_str(" map="); tr_hex(buf, 64);
		gt_exp_gen(f, k);
		gt_write_bin(buf, 12 * RLC_FP_BYTES, f, 0);
		tr_str(" expgen="); tr_hex(buf, 64);
		tr_printf(" valid=%d%d%d", g1_is_valid(p), g2_is_valid(q), gt_is_valid(e));
		/* bilinearity on the probe values ties G1, G2, GT and the order together */
		g1_mul_dig(s, p, 5);
		pc_map(f, s, q);
		gt_exp_dig(e, e, 5);
		tr_printf(" bilin=%d", gt_cmp(e, f) == RLC_EQ);
		cp_bls_gen(d, pk);
		cp_bls_sig(s, (const uint8_t *)"probe", 5, d);
		cs_hex_ep("bls", s);
		tr_printf(" blsver=%d\n", cp_bls_ver(s, (const uint8_t *)"probe", 5, pk));
	} RLC_CATCH_ANY {
		tr_str(" THROWN\n");
	} RLC_FINALLY {
		bn_free(k); bn_free(d); g1_free(p); g1_free(s); g2_free(q); g2_free(pk); gt_free(e); gt_free(f);
	}
	tr_printf("P2code %d\n", err_get_code() != RLC_OK);
}

/* Probe of the binary field + curve layer. */
static void cs_probe_l3(void) {
	bn_t k;
	eb_t p, q;
	fb_t a, b;
	uint8_t seed[16], buf[2 * RLC_FB_BYTES + 1];
	bn_null(k); eb_null(p); eb_null(q); fb_null(a); fb_null(b);
	memset(seed, 0x33, sizeof(seed));
	RLC_TRY {
		bn_new(k); eb_new(p); eb_new(q); fb_new(a); fb_new(b);
		sim_reseed_fresh(seed, sizeof(seed));
		bn_set_dig(k, 0xFACE); bn_lsh(k, k, 200); bn_add_dig(k, k, 3);
		tr_printf("P3 id=%d", eb_param_get());
		eb_mul_gen(p, k);
		{
			size_t l = eb_size_bin(p, 0);
			eb_write_bin(buf, l, p, 0);
			tr_str(" mulgen="); tr_hex(buf, l);
		}
		eb_mul_dig(q, p, 3);
		eb_mul(q, q, k);
		{
			size_t l = eb_size_bin(q, 1);
			eb_write_bin(buf, l, q, 1);
			tr_str(" mul="); tr_hex(buf, l);
		}
		fb_set_dig(a, 0x1234567);
		fb_mul(b, a, a);
		fb_inv(b, b);
		fb_write_bin(buf, RLC_FB_BYTES, b);
		tr_str(" inv="); tr_hex(buf, RLC_FB_BYTES);
		tr_printf(" oncurve=%d\n", eb_on_curve(q));
	} RLC_CATCH_ANY {
		tr_str(" THROWN\n");
	} RLC_FINALLY {
		bn_free(k); eb_free(p); eb_free(q); fb_free(a); fb_free(b);
	}
	tr_printf("P3code %d\n", err_get_code() != RLC_OK);
}

/* binary field alone (after a field-only selection FBSET): multiplication, inversion, square root, trace, half-trace
 * solution on elements with bits set all over the width */
static void cs_probe_l4(void) {
	fb_t a, b, c;
	uint8_t buf[RLC_FB_BYTES];
	fb_null(a); fb_null(b); fb_null(c);
	RLC_TRY {
		fb_new(a); fb_new(b); fb_new(c);
		{ int ra_, rb_, rc_; fb_poly_get_rdc(&ra_, &rb_, &rc_); tr_printf("P4 rdc=%d,%d,%d", ra_, rb_, rc_); }
		fb_zero(a);
		for (int i = 0; i < RLC_FB_BITS; i += 3) fb_set_bit(a, i, 1);
		for (int i = RLC_FB_BITS - 30; i < RLC_FB_BITS; i++) fb_set_bit(a, i, 1);		/* every high position (trace terms sit there) */
		fb_mul(b, a, a); fb_add_dig(b, b, 5);
		fb_inv(c, b);
		fb_write_bin(buf, RLC_FB_BYTES, c); tr_str(" inv="); tr_hex(buf, RLC_FB_BYTES);
		fb_srt(c, b);
		fb_write_bin(buf, RLC_FB_BYTES, c); tr_str(" srt="); tr_hex(buf, RLC_FB_BYTES);
		tr_printf(" trc=%d%d", (int)fb_trc(a), (int)fb_trc(b));
		/* z^2 + z = w has a solution iff the trace of w is zero */
		fb_copy(c, b);
		if (fb_trc(c) != 0) fb_add_dig(c, c, 1);
		if (fb_trc(c) == 0) {
			fb_slv(c, c);
			fb_write_bin(buf, RLC_FB_BYTES, c); tr_str(" slv="); tr_hex(buf, RLC_FB_BYTES);
		}
		tr_str("\n");
	} RLC_CATCH_ANY {
		tr_str(" THROWN\n");
	} RLC_FINALLY {
		fb_free(a); fb_free(b); fb_free(c);
	}
	tr_printf("P4code %d\n", err_get_code() != RLC_OK);
}

/* Runs one step line "<item> [args]"; the items never keep pointers across steps. */
static void cs_step_(char **tok, int n);
/* Every step is a complete top-level use of the library: whatever protected blocks it entered have been left when it
 * returns, so the handler chain of the context must be what it was before the step (a chain left pointing into a
 * returned frame makes the next error jump into dead stack storage). */
static void cs_step(char **tok, int n) {
	ctx_t *c0 = core_get();
	void *l0 = c0 ? (void *)c0->last : NULL;
	cs_step_(tok, n);
	ctx_t *c1 = core_get();
	/* (a throw outside any block legitimately parks the chain at the context's own error slot until the message is fetched,
	 * which puts it back to empty: both are top-level states) */
	if (c0 != NULL && c0 == c1 && strcmp(tok[0], "REINIT") != 0 && (void *)c1->last != l0 && (void *)c1->last != (void *)&c1->error && c1->last != NULL) {
		tr_printf("CHAIN %s left-changed\n", tok[0]);
		c1->last = l0;		/* so that the rest of the script is still comparable */
	}
}
static void cs_step_(char **tok, int n) {
	const char *it = tok[0];
	if (!strcmp(it, "TWIST")) {
		/* re-selection of the twist of the pairing curve in force (d / m), or a type that is neither (bad): the latter is
		 * only scripted while no pairing layer is in force */
		const char *w = n > 1 ? tok[1] : "bad";
		int thrown = 0;
		if (strcmp(w, "d") != 0 && strcmp(w, "m") != 0) {
			/* without a protected block of the harness around it: an enclosing block would put the chain right again
			 * when it ends and hide what the call left behind */
			ep2_curve_set_twist(0);
		} else {
			RLC_TRY {
				ep2_curve_set_twist(!strcmp(w, "d") ? RLC_EP_DTYPE : RLC_EP_MTYPE);
			} RLC_CATCH_ANY {
				thrown = 1;
			}
		}
		tr_printf("TWIST %s thrown=%d code=%d\n", w, thrown, err_get_code() != RLC_OK);
	} else if (!strcmp(it, "EPSET")) {
		int id = cs_curve_id(n > 1 ? tok[1] : "");
		int thrown = 0;
		RLC_TRY {
			ep_param_set(id < 0 ? 9999 : id);
		} RLC_CATCH_ANY {
			thrown = 1;
		}
		tr_printf("EPSET %s thrown=%d code=%d now=%d\n", n > 1 ? tok[1] : "?", thrown, err_get_code() != RLC_OK, ep_param_get());
	} else if (!strcmp(it, "FPSET")) {
		const char *w = n > 1 ? tok[1] : "NIST_256";
		int id = -1, thrown = 0;
		if (!strcmp(w, "NIST_256")) id = NIST_256;
		else if (!strcmp(w, "BSI_256")) id = BSI_256;
		else if (!strcmp(w, "SECG_256")) id = SECG_256;
		else if (!strcmp(w, "SM2_256")) id = SM2_256;
		else if (!strcmp(w, "BN_256")) id = BN_256;
		else if (!strcmp(w, "SM9_256")) id = SM9_256;
		RLC_TRY {
			if (!strcmp(w, "any")) fp_param_set_any();
			else if (!strcmp(w, "dense")) fp_param_set_any_dense();
			else if (!strcmp(w, "tower")) fp_param_set_any_tower();
			else fp_param_set(id < 0 ? 9999 : id);
		} RLC_CATCH_ANY {
			thrown = 1;
		}
		tr_printf("FPSET %s thrown=%d code=%d now=%d\n", w, thrown, err_get_code() != RLC_OK, fp_param_get());
	} else if (!strcmp(it, "PCANY")) {
		int rc = pc_param_set_any();
		tr_printf("PCANY rc=%d code=%d now=%d\n", rc != RLC_OK, err_get_code() != RLC_OK, ep_param_get());
	} else if (!strcmp(it, "EPANY")) {
		int rc = RLC_ERR;
		const char *w = n > 1 ? tok[1] : "any";
		if (!strcmp(w, "plain")) rc = ep_param_set_any_plain();
		else if (!strcmp(w, "endom")) rc = ep_param_set_any_endom();
		else if (!strcmp(w, "pairf")) rc = ep_param_set_any_pairf();
		else if (!strcmp(w, "ec")) rc = ec_param_set_any();
		else rc = ep_param_set_any();
		tr_printf("EPANY %s rc=%d code=%d now=%d\n", w, rc != RLC_OK, err_get_code() != RLC_OK, ep_param_get());
	} else if (!strcmp(it, "EBSET")) {
		int thrown = 0;
		const char *w = n > 1 ? tok[1] : "any";
		RLC_TRY {
			if (!strcmp(w, "NIST_B283")) eb_param_set(NIST_B283);
			else if (!strcmp(w, "NIST_K283")) eb_param_set(NIST_K283);
			else if (!strcmp(w, "bad")) eb_param_set(9999);
			else eb_param_set_any();
		} RLC_CATCH_ANY {
			thrown = 1;
		}
		tr_printf("EBSET %s thrown=%d code=%d now=%d\n", w, thrown, err_get_code() != RLC_OK, eb_param_get());
	} else if (!strcmp(it, "FBSET")) {
		/* a selection of the binary field alone (the reduction polynomial) */
		int thrown = 0;
		const char *w = n > 1 ? tok[1] : "any";
		RLC_TRY {
			if (!strcmp(w, "NIST_283")) fb_param_set(NIST_283);
			else if (!strcmp(w, "SQRT_283")) fb_param_set(SQRT_283);
			else fb_param_set_any();
		} RLC_CATCH_ANY {
			thrown = 1;
		}
		{ int ra_, rb_, rc_; fb_poly_get_rdc(&ra_, &rb_, &rc_); tr_printf("FBSET %s thrown=%d code=%d now=%d,%d,%d\n", w, thrown, err_get_code() != RLC_OK, ra_, rb_, rc_); }
	} else if (!strcmp(it, "REINIT")) {
		ctx_t *c = core_get();
		core_clean();
		core_set(c);
		int rc = core_init();
		tr_printf("REINIT rc=%d\n", rc != RLC_OK);
	} else if (!strcmp(it, "RESEED")) {
		uint8_t b[64];
		long l = hex_decode(n > 1 ? tok[1] : "01", b, sizeof(b));
		if (l <= 0) { b[0] = 1; l = 1; }
		sim_reseed_fresh(b, (size_t)l);
		tr_printf("RESEED %ld\n", l);
	} else if (!strcmp(it, "W_MULGEN") || !strcmp(it, "W_MUL") || !strcmp(it, "W_SIM") || !strcmp(it, "W_PRE")) {
		bn_t k;
		ep_t p, q;
		bn_null(k); ep_null(p); ep_null(q);
		RLC_TRY {
			bn_new(k); ep_new(p); ep_new(q);
			cs_scalar(k, n > 1 ? tok[1] : "07");
			tr_str(it);
			if (!strcmp(it, "W_MULGEN")) {
				ep_mul_gen(p, k);
			} else if (!strcmp(it, "W_MUL")) {
				ep_curve_get_gen(q); ep_dbl(q, q); ep_norm(q, q);
				ep_mul(p, q, k);
			} else if (!strcmp(it, "W_SIM")) {
				ep_curve_get_gen(q); ep_mul_dig(q, q, 7);
				ep_mul_sim_gen(p, k, q, k);
			} else {
				ep_t tab[RLC_EP_TABLE_MAX];
				for (int i = 0; i < RLC_EP_TABLE_MAX; i++) { ep_null(tab[i]); ep_new(tab[i]); }
				ep_curve_get_gen(q); ep_mul_dig(q, q, 11);
				ep_mul_pre(tab, q);
				ep_mul_fix(p, (const ep_t *)tab, k);
				for (int i = 0; i < RLC_EP_TABLE_MAX; i++) { ep_free(tab[i]); }
			}
			cs_hex_ep("r", p);
			tr_str("\n");
		} RLC_CATCH_ANY {
			tr_str(" THROWN\n");
		} RLC_FINALLY {
			bn_free(k); ep_free(p); ep_free(q);
		}
	} else if (!strcmp(it, "W_MAP")) {
		ep_t p;
		ep_null(p);
		RLC_TRY {
			ep_new(p);
			ep_map(p, (const uint8_t *)(n > 1 ? tok[1] : "x"), strlen(n > 1 ? tok[1] : "x"));
			tr_str("W_MAP"); cs_hex_ep("r", p); tr_str("\n");
		} RLC_CATCH_ANY {
			tr_str("W_MAP THROWN\n");
		} RLC_FINALLY {
			ep_free(p);
		}
	} else if (!strcmp(it, "W_FPINV")) {
		fp_t a;
		bn_t k;
		fp_null(a); bn_null(k);
		RLC_TRY {
			fp_new(a); bn_new(k);
			cs_scalar(k, n > 1 ? tok[1] : "09");
			bn_mod_2b(k, k, RLC_FP_BITS - 2);
			bn_add_dig(k, k, 2);
			fp_prime_conv(a, k);
			fp_inv(a, a);
			tr_str("W_FPINV"); cs_hex_fp("r", a);
			tr_printf(" smb=%d\n", fp_smb(a));
		} RLC_CATCH_ANY {
			tr_str("W_FPINV THROWN\n");
		} RLC_FINALLY {
			fp_free(a); bn_free(k);
		}
	} else if (!strcmp(it, "W_ECDSA")) {
		bn_t d, r, s;
		ec_t q;
		bn_null(d); bn_null(r); bn_null(s); ec_null(q);
		RLC_TRY {
			bn_new(d); bn_new(r); bn_new(s); ec_new(q);
			cp_ecdsa_gen(d, q);
			cp_ecdsa_sig(r, s, (const uint8_t *)"work", 4, 0, d);
			tr_str("W_ECDSA"); cs_hex_bn("r", r);
			tr_printf(" ver=%d\n", cp_ecdsa_ver(r, s, (const uint8_t *)"work", 4, 0, q));
		} RLC_CATCH_ANY {
			tr_str("W_ECDSA THROWN\n");
		} RLC_FINALLY {
			bn_free(d); bn_free(r); bn_free(s); ec_free(q);
		}
	} else if (!strcmp(it, "W_PSI")) {
		/* RSA-accumulator set intersection, both roles in this context / thread (small modulus) */
		bn_t g, nn, d, r, x[3], y[3], pp[3], t[3], u[3], z[3];
		size_t len = 0;
		bn_null(g); bn_null(nn); bn_null(d); bn_null(r);
		for (int i = 0; i < 3; i++) { bn_null(x[i]); bn_null(y[i]); bn_null(pp[i]); bn_null(t[i]); bn_null(u[i]); bn_null(z[i]); }
		RLC_TRY {
			bn_new(g); bn_new(nn); bn_new(d); bn_new(r);
			for (int i = 0; i < 3; i++) { bn_new(x[i]); bn_new(y[i]); bn_new(pp[i]); bn_new(t[i]); bn_new(u[i]); bn_new(z[i]); }
			{
				/* a fixed modulus (product of two 96-bit safe primes) and generator: generating one costs ten million
				 * basic blocks of prime search, behind which the protocol itself would never meet a fine schedule */
				static const uint8_t psi_n[24] = { 0x76, 0xac, 0x6a, 0x29, 0xf6, 0x91, 0x65, 0x2d, 0xbb, 0xb7, 0x91, 0x29, 0x99, 0xcd, 0x3b,
					0x57, 0x80, 0xa4, 0x73, 0xb1, 0x15, 0x3c, 0xf6, 0xa1 };
				bn_read_bin(nn, psi_n, sizeof(psi_n));
				bn_set_dig(g, 4);
				if (n > 1 && !strcmp(tok[1], "gen")) cp_rsapsi_gen(g, nn, 192);
			}
			for (int i = 0; i < 3; i++) { bn_rand(x[i], RLC_POS, 64); bn_rand(y[i], RLC_POS, 65); bn_set_bit(y[i], 64, 1); }
			bn_copy(y[1], x[2]);
			cp_rsapsi_ask(d, r, pp, g, nn, (const bn_t *)x, 3);
			cp_rsapsi_ans(t, u, d, g, nn, (const bn_t *)y, 3);
			cp_rsapsi_int(z, &len, r, (const bn_t *)pp, nn, (const bn_t *)x, 3, (const bn_t *)t, (const bn_t *)u, 3);
			tr_printf("W_PSI len=%zu hit=%d", len, len == 1 && bn_cmp(z[0], x[2]) == RLC_EQ);
			cs_hex_bn("d", d);
			tr_str("\n");
		} RLC_CATCH_ANY {
			tr_str("W_PSI THROWN\n");
		} RLC_FINALLY {
			bn_free(g); bn_free(nn); bn_free(d); bn_free(r);
			for (int i = 0; i < 3; i++) { bn_free(x[i]); bn_free(y[i]); bn_free(pp[i]); bn_free(t[i]); bn_free(u[i]); bn_free(z[i]); }
		}
	} else if (!strcmp(it, "W_HASH")) {
		/* hashing, MAC and key derivation of a seeded message */
		uint8_t m[80], out[96];
		size_t ml = 1 + (size_t)(n > 1 ? atoi(tok[1]) % 79 : 9);
		RLC_TRY {
			rand_bytes(m, ml);
			md_map(out, m, ml);
			md_hmac(out + 32, m, ml, m, ml < 16 ? ml : 16);
			md_kdf(out + 64, 32, m, ml);
			tr_str("W_HASH o="); tr_hex(out, 96); tr_str("\n");
		} RLC_CATCH_ANY {
			tr_str("W_HASH THROWN\n");
		}
	} else if (!strcmp(it, "W_STR")) {
		/* text conversion of a seeded integer in a seeded radix, and back */
		bn_t a, b;
		char str[300];
		int radix = 2 + (n > 1 ? atoi(tok[1]) : 8) % 63;
		bn_null(a); bn_null(b);
		RLC_TRY {
			bn_new(a); bn_new(b);
			bn_rand(a, RLC_POS, 190);
			bn_write_str(str, sizeof(str), a, radix);
			bn_read_str(b, str, strlen(str), radix);
			tr_printf("W_STR r=%d s=%s eq=%d\n", radix, str, bn_cmp(a, b) == RLC_EQ);
		} RLC_CATCH_ANY {
			tr_str("W_STR THROWN\n");
		} RLC_FINALLY {
			bn_free(a); bn_free(b);
		}
	} else if (!strcmp(it, "W_SSS")) {
		bn_t x[4], y[4], sec, key, ord_;
		bn_null(sec); bn_null(key); bn_null(ord_);
		for (int i = 0; i < 4; i++) { bn_null(x[i]); bn_null(y[i]); }
		RLC_TRY {
			bn_new(sec); bn_new(key); bn_new(ord_);
			for (int i = 0; i < 4; i++) { bn_new(x[i]); bn_new(y[i]); }
			bn_gen_prime(ord_, 96);
			bn_rand_mod(sec, ord_);
			mpc_sss_gen(x, y, sec, ord_, 3, 4);
			mpc_sss_key(key, (const bn_t *)(x + 1), (const bn_t *)(y + 1), ord_, 3);
			tr_printf("W_SSS ok=%d", bn_cmp(key, sec) == RLC_EQ);
			cs_hex_bn("y", y[3]);
			tr_str("\n");
		} RLC_CATCH_ANY {
			tr_str("W_SSS THROWN\n");
		} RLC_FINALLY {
			bn_free(sec); bn_free(key); bn_free(ord_);
			for (int i = 0; i < 4; i++) { bn_free(x[i]); bn_free(y[i]); }
		}
	} else if (!strcmp(it, "W_ECIES")) {
		bn_t d;
		ec_t q, r;
		uint8_t m[40], c[128], o[128];
		size_t cl = sizeof(c), ol = sizeof(o);
		bn_null(d); ec_null(q); ec_null(r);
		RLC_TRY {
			bn_new(d); ec_new(q); ec_new(r);
			rand_bytes(m, sizeof(m));
			cp_ecies_gen(d, q);
			int r1 = cp_ecies_enc(r, c, &cl, m, sizeof(m), q);
			int r2 = cp_ecies_dec(o, &ol, r, c, cl, d);
			tr_printf("W_ECIES rc=%d%d same=%d c=", r1 != RLC_OK, r2 != RLC_OK, ol == sizeof(m) && memcmp(o, m, sizeof(m)) == 0);
			tr_hex(c, 32); tr_str("\n");
		} RLC_CATCH_ANY {
			tr_str("W_ECIES THROWN\n");
		} RLC_FINALLY {
			bn_free(d); ec_free(q); ec_free(r);
		}
	} else if (!strcmp(it, "W_PAIR")) {
		g1_t p;
		g2_t q;
		gt_t e;
		uint8_t buf[12 * RLC_FP_BYTES];
		g1_null(p); g2_null(q); gt_null(e);
		RLC_TRY {
			g1_new(p); g2_new(q); gt_new(e);
			g1_get_gen(p); g2_get_gen(q);
			g1_mul_dig(p, p, 1 + (dig_t)(n > 1 ? atoi(tok[1]) % 1000 : 5));
			pc_map(e, p, q);
			gt_write_bin(buf, sizeof(buf), e, 0);
			tr_str("W_PAIR e="); tr_hex(buf, 48); tr_str("\n");
		} RLC_CATCH_ANY {
			tr_str("W_PAIR THROWN\n");
		} RLC_FINALLY {
			g1_free(p); g2_free(q); gt_free(e);
		}
	} else if (!strcmp(it, "W_EB")) {
		bn_t k;
		eb_t p;
		uint8_t buf[2 * RLC_FB_BYTES + 1];
		bn_null(k); eb_null(p);
		RLC_TRY {
			bn_new(k); eb_new(p);
			cs_scalar(k, n > 1 ? tok[1] : "05");
			eb_mul_gen(p, k);
			size_t l = eb_size_bin(p, 1);
			eb_write_bin(buf, l, p, 1);
			tr_str("W_EB r="); tr_hex(buf, l); tr_str("\n");
		} RLC_CATCH_ANY {
			tr_str("W_EB THROWN\n");
		} RLC_FINALLY {
			bn_free(k); eb_free(p);
		}
	} else if (!strcmp(it, "W_FAIL")) {
		/* an intentionally failing call: error state must stay inside this context / thread */
		int kind = n > 1 ? atoi(tok[1]) % 3 : 0;
		int thrown = 0;
		bn_t a, b;
		bn_null(a); bn_null(b);
		RLC_TRY {
			bn_new(a); bn_new(b);
			bn_set_dig(a, 5); bn_zero(b);
			if (kind == 0) bn_div(a, a, b);
			else if (kind == 1) bn_read_str(a, "1", 1, 99);
			else { uint8_t t[1]; bn_set_2b(a, 100); bn_write_bin(t, 1, a); }
		} RLC_CATCH_ANY {
			thrown = 1;
		} RLC_FINALLY {
			bn_free(a); bn_free(b);
		}
		tr_printf("W_FAIL %d thrown=%d\n", kind, thrown);
	} else if (!strcmp(it, "W_THROWOUT")) {
		/* a throw outside any protected block: only the sticky code of this context changes */
		RLC_THROW(ERR_NO_VALID);
		tr_printf("W_THROWOUT\n");
	} else if (!strcmp(it, "GETCODE")) {
		tr_printf("GETCODE %d\n", err_get_code() != RLC_OK);
	} else if (!strcmp(it, "CLRERR")) {
		err_t e; char *m;
		if (core_get()->last == &core_get()->error) err_get_msg(&e, &m);
		(void)err_get_code();
		tr_printf("CLRERR\n");
	} else if (!strcmp(it, "RAND")) {
		uint8_t b[16];
		rand_bytes(b, sizeof(b));
		tr_str("RAND "); tr_hex(b, sizeof(b)); tr_str("\n");
	} else if (!strcmp(it, "PROBE")) {
		const char *ly = n > 1 ? tok[1] : "1";
		if (strchr(ly, '0')) cs_probe_l0();
		if (strchr(ly, '1')) cs_probe_l1();
		if (strchr(ly, '2')) cs_probe_l2();
		if (strchr(ly, '3')) cs_probe_l3();
		if (strchr(ly, '4')) cs_probe_l4();
	} else {
		tr_printf("UNKNOWN %s\n", it);
	}
}

#endif /* CTXSTEPS_H */
