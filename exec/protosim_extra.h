/* Further protosim schemes (pairing-based signatures, PSI, delegation, ...). */
static void extra_boot(void) {}
#define EXTRA_SCHEMES
