/* Further protosim schemes (included by protosim.c). */

static void extra_boot(void) {}

/* Re-randomisation by the adversary on the wire: a legal malleation of CL / PS signatures. */
static int want_rerand(sess_t *s) {
	fault_t *f = find_fault(s, "sig");
	return f && !strcmp(f->kind, "v_rerand");
}

/* ---- Boneh-Boyen: pk q in G2, z in GT, signature in G1 ---- */
static int sch_bbs(sess_t *s) {
	switch (s->phase) {
		case 0: log_rc(s, "gen", cp_bbs_gen(s->b[0], s->g2[0], s->gt[0])); return 1;
		case 1: log_rc(s, "sig", cp_bbs_sig(s->g1[0], s->msg, s->msg_len, (int)s->opt[0], s->b[0])); return 1;
		case 2: {
			int ok = 1;
			ok &= xmit_g2(s, "pk", s->g2[5], s->g2[0], (int)s->opt[1]);
			ok &= xmit_gt(s, "z", s->gt[5], s->gt[0], 0);
			ok &= xmit_g1(s, "sig", s->g1[5], s->g1[0], (int)s->opt[1]);
			s->blen[0] = xmit_bytes(s, "msg", s->buf[0], s->msg, s->msg_len);
			s->flag[0] = ok;
			return 1;
		}
		case 3:
			if (s->flag[0]) log_ver(s, "ver", cp_bbs_ver(s->g1[5], EX(s->buf[0], s->blen[0]), s->blen[0], (int)s->opt[0], s->g2[5], s->gt[5]) == 1);
			else tr_printf("VER %d ver decode-failed\n", s->sid);
			return 0;
	}
	return 0;
}

/* ---- ZSS: pk q in G1, signature in G2 ---- */
static int sch_zss(sess_t *s) {
	switch (s->phase) {
		case 0: log_rc(s, "gen", cp_zss_gen(s->b[0], s->g1[0], s->gt[0])); return 1;
		case 1: log_rc(s, "sig", cp_zss_sig(s->g2[0], s->msg, s->msg_len, (int)s->opt[0], s->b[0])); return 1;
		case 2: {
			int ok = 1;
			ok &= xmit_g1(s, "pk", s->g1[5], s->g1[0], (int)s->opt[1]);
			ok &= xmit_gt(s, "z", s->gt[5], s->gt[0], 0);
			ok &= xmit_g2(s, "sig", s->g2[5], s->g2[0], (int)s->opt[1]);
			s->blen[0] = xmit_bytes(s, "msg", s->buf[0], s->msg, s->msg_len);
			s->flag[0] = ok;
			return 1;
		}
		case 3:
			if (s->flag[0]) log_ver(s, "ver", cp_zss_ver(s->g2[5], EX(s->buf[0], s->blen[0]), s->blen[0], (int)s->opt[0], s->g1[5], s->gt[5]) == 1);
			else tr_printf("VER %d ver decode-failed\n", s->sid);
			return 0;
	}
	return 0;
}

/* ---- Camenisch-Lysyanskaya A ---- */
static int sch_cls(sess_t *s) {
	switch (s->phase) {
		case 0: log_rc(s, "gen", cp_cls_gen(s->b[0], s->b[1], s->g2[0], s->g2[1])); return 1;
		case 1: log_rc(s, "sig", cp_cls_sig(s->g1[0], s->g1[1], s->g1[2], s->msg, s->msg_len, s->b[0], s->b[1])); return 1;
		case 2: {
			int ok = 1;
			if (want_rerand(s)) {
				bn_rand_mod(s->b[5], ord);
				for (int i = 0; i < 3; i++) { g1_mul(s->g1[i], s->g1[i], s->b[5]); }
				tr_printf("NOTE %d rerandomised\n", s->sid);
			}
			ok &= xmit_g2(s, "x", s->g2[5], s->g2[0], (int)s->opt[1]);
			ok &= xmit_g2(s, "y", s->g2[6], s->g2[1], (int)s->opt[1]);
			ok &= xmit_g1(s, "a", s->g1[5], s->g1[0], (int)s->opt[1]);
			ok &= xmit_g1(s, "b", s->g1[6], s->g1[1], (int)s->opt[1]);
			ok &= xmit_g1(s, "c", s->g1[7], s->g1[2], (int)s->opt[1]);
			s->blen[0] = xmit_bytes(s, "msg", s->buf[0], s->msg, s->msg_len);
			s->flag[0] = ok;
			return 1;
		}
		case 3:
			if (s->flag[0]) log_ver(s, "ver", cp_cls_ver(s->g1[5], s->g1[6], s->g1[7], EX(s->buf[0], s->blen[0]), s->blen[0], s->g2[5], s->g2[6]) == 1);
			else tr_printf("VER %d ver decode-failed\n", s->sid);
			return 0;
	}
	return 0;
}

/* ---- Camenisch-Lysyanskaya B (committed message) ---- */
static int sch_cli(sess_t *s) {
	switch (s->phase) {
		case 0: log_rc(s, "gen", cp_cli_gen(s->b[0], s->b[1], s->b[2], s->g2[0], s->g2[1], s->g2[2])); return 1;
		case 1:
			bn_rand_mod(s->b[3], ord);
			{
				int rc_ = cp_cli_sig(s->g1[0], s->g1[1], s->g1[2], s->g1[3], s->g1[4], s->msg, s->msg_len, s->b[3],
						s->b[0], s->b[1], s->b[2]);
				s->flag[3] = rc_ == RLC_OK;
				log_rc(s, "sig", rc_);
			}
			return 1;
		case 2: {
			int ok = 1;
			fault_t *fm = find_fault(s, "forge");
			if (fm && !strcmp(fm->kind, "v_moved") && s->flag[3] && s->msg_len > 0 && !bn_is_zero(s->b[3])) {
				/* an accepted signature on (m, r) moved to another message m' without the key: B' = B + ((m - m') / r) b
				 * leaves the last equation e(a + m b + r B, X) = e(c, g) satisfied; only the check that ties B to A
				 * (e(A, Y) = e(B, g)) tells them apart */
				bn_read_bin(s->b[14], s->msg, s->msg_len); bn_mod(s->b[14], s->b[14], ord);
				s->msg[s->msg_len - 1] ^= (uint8_t)(1 + fm->a % 255);
				bn_read_bin(s->b[15], s->msg, s->msg_len); bn_mod(s->b[15], s->b[15], ord);
				bn_sub(s->b[14], s->b[14], s->b[15]); bn_mod(s->b[14], s->b[14], ord);
				bn_mod_inv(s->b[15], s->b[3], ord);
				bn_mul(s->b[14], s->b[14], s->b[15]); bn_mod(s->b[14], s->b[14], ord);
				g1_t tmp_;
				g1_null(tmp_); g1_new(tmp_);
				g1_mul(tmp_, s->g1[2], s->b[14]);
				g1_add(s->g1[3], s->g1[3], tmp_); g1_norm(s->g1[3], s->g1[3]);
				g1_free(tmp_);
				tr_printf("NOTE %d coordinated-message-moved\n", s->sid);
			}
			ok &= xmit_g2(s, "x", s->g2[5], s->g2[0], (int)s->opt[1]);
			ok &= xmit_g2(s, "y", s->g2[6], s->g2[1], (int)s->opt[1]);
			ok &= xmit_g2(s, "z", s->g2[7], s->g2[2], (int)s->opt[1]);
			ok &= xmit_g1(s, "a", s->g1[5], s->g1[0], (int)s->opt[1]);
			ok &= xmit_g1(s, "A", s->g1[6], s->g1[1], (int)s->opt[1]);
			ok &= xmit_g1(s, "b", s->g1[7], s->g1[2], (int)s->opt[1]);
			ok &= xmit_g1(s, "B", s->g1[8], s->g1[3], (int)s->opt[1]);
			ok &= xmit_g1(s, "c", s->g1[9], s->g1[4], (int)s->opt[1]);
			ok &= xmit_bn(s, "r", s->b[12], s->b[3], 0);
			s->blen[0] = xmit_bytes(s, "msg", s->buf[0], s->msg, s->msg_len);
			s->flag[0] = ok;
			return 1;
		}
		case 3:
			if (s->flag[0]) log_ver(s, "ver", cp_cli_ver(s->g1[5], s->g1[6], s->g1[7], s->g1[8], s->g1[9], EX(s->buf[0], s->blen[0]), s->blen[0],
						s->b[12], s->g2[5], s->g2[6], s->g2[7]) == 1);
			else tr_printf("VER %d ver decode-failed\n", s->sid);
			return 0;
	}
	return 0;
}

/* ---- Camenisch-Lysyanskaya C (block messages), l = opt[4] in 1..3 ---- */
static int sch_clb(sess_t *s) {
	size_t l = (size_t)s->opt[4];
	if (l < 1) l = 1;
	if (l > 3) l = 3;
	/* messages: the session message split in l blocks */
	const uint8_t *ms[3];
	size_t ls[3];
	size_t part = s->msg_len / l;
	char name[8];
	switch (s->phase) {
		case 0:
			/* t b[0], u b[1], v[] b[2..], x g2[0], y g2[1], z[] g2[2..] */
			log_rc(s, "gen", cp_clb_gen(s->b[0], s->b[1], s->b + 2, s->g2[0], s->g2[1], s->g2 + 2, l));
			return 1;
		case 1:
			for (size_t i = 0; i < l; i++) { ms[i] = s->msg + i * part; ls[i] = (i == l - 1) ? s->msg_len - i * part : part; }
			/* a g1[0], A[] g1[1..3], b g1[4], B[] g1[5..7], c g1[8] */
			log_rc(s, "sig", cp_clb_sig(s->g1[0], s->g1 + 1, s->g1[4], s->g1 + 5, s->g1[8], ms, ls, s->b[0], s->b[1], s->b + 2, l));
			return 1;
		case 2: {
			int ok = 1;
			/* the verifier's copies reuse the upper half of the arrays after the sender is done */
			g2_t *rx = s->g2 + 5;		/* x', y', z'[] at g2[5], g2[6], g2[7..9] */
			ok &= xmit_g2(s, "x", rx[0], s->g2[0], (int)s->opt[1]);
			ok &= xmit_g2(s, "y", rx[1], s->g2[1], (int)s->opt[1]);
			for (size_t i = 0; i + 1 < l; i++) {
				snprintf(name, sizeof(name), "z%zu", i);
				ok &= xmit_g2(s, name, rx[2 + i], s->g2[2 + i], (int)s->opt[1]);
			}
			/* coordinated substitutions by a dishonest sender on two sibling components (only with >= 3 blocks):
			 * swap A_0 / A_1 (or B_0 / B_1), or move a difference D from one to the other */
			if (l >= 3) {
				fault_t *fa = find_fault(s, "pairA"), *fb = find_fault(s, "pairB");
				for (int w = 0; w < 2; w++) {
					fault_t *ff = w ? fb : fa;
					g1_t *X = s->g1 + (w ? 5 : 1);
					if (!ff) continue;
					g1_t d;
					g1_null(d); g1_new(d);
					if (!strcmp(ff->kind, "v_swap")) {
						g1_copy(d, X[0]); g1_copy(X[0], X[1]); g1_copy(X[1], d);
					} else {
						g1_rand(d);
						g1_add(X[0], X[0], d); g1_norm(X[0], X[0]);
						g1_sub(X[1], X[1], d); g1_norm(X[1], X[1]);
					}
					tr_printf("NOTE %d coordinated-%s-%s\n", s->sid, w ? "B" : "A", ff->kind);
					g1_free(d);
				}
			}
			/* signature components are delivered in place (sender objects are not needed any more) */
			const char *nm[9] = { "a", "A0", "A1", "A2", "b", "B0", "B1", "B2", "c" };
			for (int i = 0; i < 9; i++) {
				/* a scheme with l blocks has l - 1 auxiliary elements A_i, B_i, Z_i */
				if ((i >= 1 && i <= 3 && (size_t)i >= l) || (i >= 5 && i <= 7 && (size_t)(i - 4) >= l)) continue;
				g1_t t;
				g1_null(t); g1_new(t);
				g1_copy(t, s->g1[i]);
				ok &= xmit_g1(s, nm[i], s->g1[i], t, (int)s->opt[1]);
				g1_free(t);
			}
			s->blen[0] = xmit_bytes(s, "msg", s->buf[0], s->msg, s->msg_len);
			s->flag[0] = ok;
			return 1;
		}
		case 3:
			if (s->flag[0]) {
				size_t ml = s->blen[0];
				size_t p2 = ml / l;
				for (size_t i = 0; i < l; i++) { ms[i] = s->buf[0] + i * p2; ls[i] = (i == l - 1) ? ml - i * p2 : p2; }
				log_ver(s, "ver", cp_clb_ver(s->g1[0], (const g1_t *)(s->g1 + 1), s->g1[4], (const g1_t *)(s->g1 + 5), s->g1[8], ms, ls,
						s->g2[5], s->g2[6], (const g2_t *)(s->g2 + 7), l) == 1);
			} else tr_printf("VER %d ver decode-failed\n", s->sid);
			return 0;
	}
	return 0;
}

/* ---- Pointcheval-Sanders (single message in Z_r) ---- */
static int sch_pss(sess_t *s) {
	switch (s->phase) {
		case 0: log_rc(s, "gen", cp_pss_gen(s->b[0], s->b[1], s->g2[0], s->g2[1], s->g2[2])); return 1;
		case 1:
			bn_read_bin(s->b[2], s->msg, s->msg_len > 32 ? 32 : s->msg_len);
			bn_mod(s->b[2], s->b[2], ord);
			log_rc(s, "sig", cp_pss_sig(s->g1[0], s->g1[1], s->b[2], s->b[0], s->b[1]));
			return 1;
		case 2: {
			int ok = 1;
			if (want_rerand(s)) {
				bn_rand_mod(s->b[5], ord);
				for (int i = 0; i < 2; i++) { g1_mul(s->g1[i], s->g1[i], s->b[5]); }
				tr_printf("NOTE %d rerandomised\n", s->sid);
			}
			ok &= xmit_g2(s, "g", s->g2[5], s->g2[0], (int)s->opt[1]);
			ok &= xmit_g2(s, "x", s->g2[6], s->g2[1], (int)s->opt[1]);
			ok &= xmit_g2(s, "y", s->g2[7], s->g2[2], (int)s->opt[1]);
			ok &= xmit_g1(s, "a", s->g1[5], s->g1[0], (int)s->opt[1]);
			ok &= xmit_g1(s, "b", s->g1[6], s->g1[1], (int)s->opt[1]);
			ok &= xmit_bn(s, "m", s->b[12], s->b[2], 0);
			s->flag[0] = ok;
			return 1;
		}
		case 3:
			if (s->flag[0]) log_ver(s, "ver", cp_pss_ver(s->g1[5], s->g1[6], s->b[12], s->g2[5], s->g2[6], s->g2[7]) == 1);
			else tr_printf("VER %d ver decode-failed\n", s->sid);
			return 0;
	}
	return 0;
}

/* ---- Pointcheval-Sanders block, l = opt[4] in 1..3 ---- */
static int sch_psb(sess_t *s) {
	size_t l = (size_t)s->opt[4];
	char name[8];
	if (l < 1) l = 1;
	if (l > 3) l = 3;
	switch (s->phase) {
		case 0:
			/* r b[0], s[] b[1..3], g g2[0], x g2[1], y[] g2[2..4] */
			log_rc(s, "gen", cp_psb_gen(s->b[0], s->b + 1, s->g2[0], s->g2[1], s->g2 + 2, l));
			return 1;
		case 1:
			for (size_t i = 0; i < l; i++) { bn_rand_mod(s->b[6 + i], ord); }
			log_rc(s, "sig", cp_psb_sig(s->g1[0], s->g1[1], (const bn_t *)(s->b + 6), s->b[0], (const bn_t *)(s->b + 1), l));
			return 1;
		case 2: {
			int ok = 1;
			ok &= xmit_g2(s, "g", s->g2[5], s->g2[0], (int)s->opt[1]);
			ok &= xmit_g2(s, "x", s->g2[6], s->g2[1], (int)s->opt[1]);
			for (size_t i = 0; i < l; i++) {
				snprintf(name, sizeof(name), "y%zu", i);
				ok &= xmit_g2(s, name, s->g2[7 + i], s->g2[2 + i], (int)s->opt[1]);
				snprintf(name, sizeof(name), "m%zu", i);
				ok &= xmit_bn(s, name, s->b[12 + i], s->b[6 + i], 0);
			}
			ok &= xmit_g1(s, "a", s->g1[5], s->g1[0], (int)s->opt[1]);
			ok &= xmit_g1(s, "b", s->g1[6], s->g1[1], (int)s->opt[1]);
			s->flag[0] = ok;
			return 1;
		}
		case 3:
			if (s->flag[0]) log_ver(s, "ver", cp_psb_ver(s->g1[5], s->g1[6], (const bn_t *)(s->b + 12), s->g2[5], s->g2[6],
						(const g2_t *)(s->g2 + 7), l) == 1);
			else tr_printf("VER %d ver decode-failed\n", s->sid);
			return 0;
	}
	return 0;
}

/* ---- vBNN-IBS ---- */
static int sch_vbnn(sess_t *s) {
	static const uint8_t id[] = "alice@example";
	switch (s->phase) {
		case 0: log_rc(s, "gen", cp_vbnn_gen(s->b[0], s->e[0])); return 1;
		case 1: log_rc(s, "genprv", cp_vbnn_gen_prv(s->b[1], s->e[1], s->b[0], id, sizeof(id) - 1)); return 1;
		case 2: log_rc(s, "sig", cp_vbnn_sig(s->e[2], s->b[2], s->b[3], id, sizeof(id) - 1, s->msg, (int)s->msg_len, s->b[1], s->e[1])); return 1;
		case 3: {
			int ok = 1;
			ok &= xmit_ec(s, "mpk", s->e[5], s->e[0], (int)s->opt[1]);
			ok &= xmit_ec(s, "R", s->e[6], s->e[2], (int)s->opt[1]);
			ok &= xmit_bn(s, "z", s->b[12], s->b[2], 0);
			ok &= xmit_bn(s, "h", s->b[13], s->b[3], 0);
			s->blen[1] = xmit_bytes(s, "id", s->buf[1], id, sizeof(id) - 1);
			s->blen[0] = xmit_bytes(s, "msg", s->buf[0], s->msg, s->msg_len);
			s->flag[0] = ok;
			return 1;
		}
		case 4:
			if (s->flag[0]) log_ver(s, "ver", cp_vbnn_ver(s->e[6], s->b[12], s->b[13], EX(s->buf[1], s->blen[1]), s->blen[1], EX(s->buf[0], s->blen[0]), (int)s->blen[0], s->e[5]) == 1);
			else tr_printf("VER %d ver decode-failed\n", s->sid);
			return 0;
	}
	return 0;
}

/* ---- proofs / signatures of knowledge of a discrete logarithm: opt[0] = 1 adds a message (sok) ---- */
static int sch_pokdl(sess_t *s) {
	int sok = !strcmp(s->scheme, "sokdl");
	switch (s->phase) {
		case 0: bn_rand_mod(s->b[0], ord); ec_mul_gen(s->e[0], s->b[0]); return 1;
		case 1:
			if (sok) log_rc(s, "prv", cp_sokdl_sig(s->b[1], s->b[2], s->msg, s->msg_len, s->e[0], s->b[0]));
			else log_rc(s, "prv", cp_pokdl_prv(s->b[1], s->b[2], s->e[0], s->b[0]));
			return 1;
		case 2: {
			int ok = 1;
			fault_t *fr = find_fault(s, "forge");
			if (fr && !strcmp(fr->kind, "v_relkey")) {
				/* an accepted proof adapted to a related statement without the witness: Y' = Y + [d]G, r' = r - c d.
				 * The commitment T = [r]G + [c]Y stays what it was; only a challenge that binds Y tells them apart */
				bn_set_dig(s->b[3], (dig_t)(1 + fr->a % 1000));
				ec_mul_gen(s->e[1], s->b[3]);
				ec_add(s->e[0], s->e[0], s->e[1]); ec_norm(s->e[0], s->e[0]);
				bn_mul(s->b[3], s->b[3], s->b[1]); bn_mod(s->b[3], s->b[3], ord);
				bn_sub(s->b[2], s->b[2], s->b[3]);
				if (bn_sign(s->b[2]) == RLC_NEG) bn_add(s->b[2], s->b[2], ord);
				tr_printf("NOTE %d related-key-adapted\n", s->sid);
			}
			ok &= xmit_ec(s, "y", s->e[5], s->e[0], (int)s->opt[1]);
			ok &= xmit_bn(s, "c", s->b[12], s->b[1], 0);
			ok &= xmit_bn(s, "r", s->b[13], s->b[2], 0);
			if (sok) s->blen[0] = xmit_bytes(s, "msg", s->buf[0], s->msg, s->msg_len);
			s->flag[0] = ok;
			return 1;
		}
		case 3:
			if (s->flag[0]) {
				if (sok) log_ver(s, "ver", cp_sokdl_ver(s->b[12], s->b[13], EX(s->buf[0], s->blen[0]), s->blen[0], s->e[5]) == 1);
				else log_ver(s, "ver", cp_pokdl_ver(s->b[12], s->b[13], s->e[5]) == 1);
			} else tr_printf("VER %d ver decode-failed\n", s->sid);
			return 0;
	}
	return 0;
}

/* ---- OR-proofs: the prover knows the logarithm of y[opt[6] & 1] only ---- */
static int sch_pokor(sess_t *s) {
	int sok = !strcmp(s->scheme, "sokor");
	int first = (int)(s->opt[6] & 1);
	switch (s->phase) {
		case 0:
			bn_rand_mod(s->b[0], ord);
			if (sok && first) { ec_mul_gen(s->e[0], s->b[0]); ec_rand(s->e[1]); }
			else { ec_rand(s->e[0]); ec_mul_gen(s->e[1], s->b[0]); }
			return 1;
		case 1:
			/* c[] b[1..2], r[] b[3..4], y[] e[0..1] */
			if (sok) log_rc(s, "prv", cp_sokor_sig(s->b + 1, s->b + 3, s->msg, s->msg_len, (const ec_t *)s->e, NULL, s->b[0], first));
			else log_rc(s, "prv", cp_pokor_prv(s->b + 1, s->b + 3, (const ec_t *)s->e, s->b[0]));
			return 1;
		case 2: {
			int ok = 1;
			fault_t *f = find_fault(s, "stmt");
			int swap = f && !strcmp(f->kind, "v_swap");
			/* the adversary may swap the two statements of the disjunction */
			ok &= xmit_ec(s, "y0", s->e[5], s->e[swap ? 1 : 0], (int)s->opt[1]);
			ok &= xmit_ec(s, "y1", s->e[6], s->e[swap ? 0 : 1], (int)s->opt[1]);
			if (swap) tr_printf("NOTE %d statements-swapped\n", s->sid);
			ok &= xmit_bn(s, "c0", s->b[12], s->b[1], 0);
			ok &= xmit_bn(s, "c1", s->b[13], s->b[2], 0);
			ok &= xmit_bn(s, "r0", s->b[14], s->b[3], 0);
			ok &= xmit_bn(s, "r1", s->b[15], s->b[4], 0);
			if (sok) s->blen[0] = xmit_bytes(s, "msg", s->buf[0], s->msg, s->msg_len);
			s->flag[0] = ok;
			return 1;
		}
		case 3:
			if (s->flag[0]) {
				if (sok) log_ver(s, "ver", cp_sokor_ver((const bn_t *)(s->b + 12), (const bn_t *)(s->b + 14), EX(s->buf[0], s->blen[0]), s->blen[0], (const ec_t *)(s->e + 5), NULL) == 1);
				else log_ver(s, "ver", cp_pokor_ver((const bn_t *)(s->b + 12), (const bn_t *)(s->b + 14), (const ec_t *)(s->e + 5)) == 1);
			} else tr_printf("VER %d ver decode-failed\n", s->sid);
			return 0;
	}
	return 0;
}

/* ---- extendable ring signatures: opt[4] = ring size after extension (1..3) ---- */
static ers_t ring_a[NSESS][3], ring_b[NSESS][3];
static int rings_ready = 0;
static void rings_init(void) {
	if (rings_ready) return;
	for (int i = 0; i < NSESS; i++) {
		for (int j = 0; j < 3; j++) {
			ers_null(ring_a[i][j]); ers_new(ring_a[i][j]);
			ers_null(ring_b[i][j]); ers_new(ring_b[i][j]);
		}
	}
	rings_ready = 1;
}

static int sch_ers(sess_t *s) {
	size_t want = (size_t)s->opt[4];
	char name[12];
	if (want < 1) want = 1;
	if (want > 3) want = 3;
	rings_init();
	ers_t *ra = ring_a[s->sid], *rb = ring_b[s->sid];
	switch (s->phase) {
		case 0:
			log_rc(s, "genpp", cp_ers_gen(s->e[0]));
			for (int i = 0; i < 3; i++) { log_rc(s, "genkey", cp_ers_gen_key(s->b[i], s->e[1 + i])); }
			return 1;
		case 1:
			log_rc(s, "sig", cp_ers_sig(s->b[4], ra[0], s->msg, s->msg_len, s->b[0], s->e[1], s->e[0]));
			s->blen[5] = 1;
			return 1;
		case 2: {
			/* members join in turn (a history of extensions) */
			size_t size = s->blen[5];
			while (size < want) {
				int rc = cp_ers_ext(s->b[4], (ers_t *)ra, &size, s->msg, s->msg_len, s->e[1 + size], s->e[0]);
				log_rc(s, "ext", rc);
				if (rc != RLC_OK) break;
			}
			s->blen[5] = size;
			return 1;
		}
		case 3: {
			int ok = 1;
			size_t size = s->blen[5];
			ok &= xmit_ec(s, "pp", s->e[5], s->e[0], (int)s->opt[1]);
			ok &= xmit_bn(s, "td", s->b[12], s->b[4], 0);
			for (size_t i = 0; i < size; i++) {
				snprintf(name, sizeof(name), "h%zu", i); ok &= xmit_ec(s, name, rb[i]->h, ra[i]->h, (int)s->opt[1]);
				snprintf(name, sizeof(name), "pk%zu", i); ok &= xmit_ec(s, name, rb[i]->pk, ra[i]->pk, (int)s->opt[1]);
				snprintf(name, sizeof(name), "c%zu0", i); ok &= xmit_bn(s, name, rb[i]->c[0], ra[i]->c[0], 0);
				snprintf(name, sizeof(name), "c%zu1", i); ok &= xmit_bn(s, name, rb[i]->c[1], ra[i]->c[1], 0);
				snprintf(name, sizeof(name), "r%zu0", i); ok &= xmit_bn(s, name, rb[i]->r[0], ra[i]->r[0], 0);
				snprintf(name, sizeof(name), "r%zu1", i); ok &= xmit_bn(s, name, rb[i]->r[1], ra[i]->r[1], 0);
			}
			s->blen[0] = xmit_bytes(s, "msg", s->buf[0], s->msg, s->msg_len);
			s->flag[0] = ok;
			return 1;
		}
		case 4:
			if (s->flag[0]) log_ver(s, "ver", cp_ers_ver(s->b[12], (const ers_t *)rb, s->blen[5], EX(s->buf[0], s->blen[0]), s->blen[0], s->e[5]) == 1);
			else tr_printf("VER %d ver decode-failed\n", s->sid);
			return 0;
	}
	return 0;
}

/* ---- multi-key linearly homomorphic signatures: 2 signers x 2 labels, evaluator combines ---- */
static int sch_mklhs(sess_t *s) {
	static const char *data = "database-identifier";
	static const char *id[3] = { "Alice", "Bob", "Carol-with-a-longer-name" };
	static const char *tags[3] = { "l0", "l1", "label-two" };
	/* opt k: number of signers 1..3, opt n: number of labels 1..3 (the verifier's scratch arrays are sized from both) */
	int ns = 1 + (int)(s->opt[4] % 3), nl = 1 + (int)(s->opt[5] % 3);
	static g1_t msig[NSESS][9];
	static bn_t mmsg[NSESS][9];
	static int ready = 0;
	char name[8];
	if (!ready) {
		for (int a = 0; a < NSESS; a++) { for (int b = 0; b < 9; b++) { g1_null(msig[a][b]); g1_new(msig[a][b]); bn_null(mmsg[a][b]); bn_new(mmsg[a][b]); } }
		ready = 1;
	}
	switch (s->phase) {
		case 0:
			/* sk b[0..2], pk g2[0..2] */
			for (int j = 0; j < ns; j++) { log_rc(s, "gen", cp_mklhs_gen(s->b[j], s->g2[j])); }
			return 1;
		case 1:
			for (int j = 0; j < ns; j++) {
				for (int l = 0; l < nl; l++) {
					bn_rand_mod(mmsg[s->sid][3 * j + l], ord);
					log_rc(s, "sig", cp_mklhs_sig(msig[s->sid][3 * j + l], mmsg[s->sid][3 * j + l], data, id[j], tags[l], s->b[j]));
				}
			}
			return 1;
		case 2: {
			/* evaluator: coefficients from the plan; mu_j b[6 + j], combined signature g1[4], combined message b[10] */
			dig_t f[3][3];
			for (int j = 0; j < 3; j++) { for (int l = 0; l < 3; l++) { f[j][l] = (dig_t)(1 + ((s->opt[7] >> ((3 * j + l) % 16)) & 15)) | ((s->opt[6] & 1) ? ((dig_t)3 << (RLC_DIG - 2)) : 0); } }
			g1_set_infty(s->g1[4]);
			bn_zero(s->b[10]);
			for (int j = 0; j < ns; j++) {
				log_rc(s, "fun", cp_mklhs_fun(s->b[6 + j], (const bn_t *)(mmsg[s->sid] + 3 * j), f[j], (size_t)nl));
				log_rc(s, "evl", cp_mklhs_evl(s->g1[5], (const g1_t *)(msig[s->sid] + 3 * j), f[j], (size_t)nl));
				g1_add(s->g1[4], s->g1[4], s->g1[5]);
				for (int l = 0; l < nl; l++) {
					bn_mul_dig(s->b[11], mmsg[s->sid][3 * j + l], f[j][l]);
					bn_add(s->b[10], s->b[10], s->b[11]);
					bn_mod(s->b[10], s->b[10], ord);
				}
			}
			g1_norm(s->g1[4], s->g1[4]);
			return 1;
		}
		case 3: {
			int ok = 1;
			for (int j = 0; j < ns; j++) {
				snprintf(name, sizeof(name), "pk%d", j); ok &= xmit_g2(s, name, s->g2[5 + j], s->g2[j], (int)s->opt[1]);
				snprintf(name, sizeof(name), "mu%d", j); ok &= xmit_bn(s, name, s->b[13 + j], s->b[6 + j], 0);
			}
			ok &= xmit_g1(s, "sig", s->g1[6], s->g1[4], (int)s->opt[1]);
			ok &= xmit_bn(s, "m", s->b[12], s->b[10], 0);
			s->flag[0] = ok;
			return 1;
		}
		case 4:
			if (s->flag[0]) {
				dig_t f[3][3], ft[3];
				const dig_t *fp[3] = { f[0], f[1], f[2] };
				size_t flen[3] = { (size_t)nl, (size_t)nl, (size_t)nl };
				g1_t h[3];
				for (int j = 0; j < 3; j++) { for (int l = 0; l < 3; l++) { f[j][l] = (dig_t)(1 + ((s->opt[7] >> ((3 * j + l) % 16)) & 15)) | ((s->opt[6] & 1) ? ((dig_t)3 << (RLC_DIG - 2)) : 0); } }
				int v1 = cp_mklhs_ver(s->g1[6], s->b[12], (const bn_t *)(s->b + 13), data, id, tags, fp, flen, (const g2_t *)(s->g2 + 5), (size_t)ns) == 1;
				log_ver(s, "ver", v1);
				/* offline/online verification must agree with plain verification */
				for (int j = 0; j < 3; j++) { g1_null(h[j]); g1_new(h[j]); }
				cp_mklhs_off(h, ft, id, tags, fp, flen, (size_t)ns);
				int v2 = cp_mklhs_onv(s->g1[6], s->b[12], (const bn_t *)(s->b + 13), data, id, (const g1_t *)h, ft, (const g2_t *)(s->g2 + 5), (size_t)ns) == 1;
				log_ver(s, "onv", v2);
				for (int j = 0; j < 3; j++) { g1_free(h[j]); }
			} else tr_printf("VER %d ver decode-failed\n", s->sid);
			return 0;
	}
	return 0;
}


/*============================================================================*/
/* C06: encryption, agreement, sharing, delegation                            */
/*============================================================================*/

/* ---- generalised Paillier with an aggregator: opt[4] senders, opt[6] = s in 1..3 ---- */
static int sch_ghpe(sess_t *s) {
	int k = (int)s->opt[4];
	size_t sp = (size_t)(1 + (s->opt[6] % 3));
	if (k < 1) k = 1;
	if (k > 4) k = 4;
	if (s->phase == 0) {
		int rc = cp_ghpe_gen(s->b[22], s->b[23], 256);
		log_rc(s, "gen", rc);
		tr_printf("KEY %d ghpe", s->sid); log_bn_kv("n", s->b[22]); tr_printf(" s=%zu\n", sp);
		return rc == RLC_OK;
	}
	if (s->phase <= k) {
		int i = s->phase - 1;
		/* plaintexts in Z_{n^s} */
		bn_copy(s->b[21], s->b[22]);
		for (size_t j = 1; j < sp; j++) { bn_mul(s->b[21], s->b[21], s->b[22]); }
		bn_rand_mod(s->b[i], s->b[21]);
		if (s->opt[5] == 1) bn_sub_dig(s->b[i], s->b[21], 1 + (dig_t)i);
		if (s->opt[5] == 2) bn_set_dig(s->b[i], (dig_t)i);
		log_rc(s, "enc", cp_ghpe_enc(s->b[4 + i], s->b[i], s->b[22], sp));
		tr_printf("OUT %d pt%d", s->sid, i); log_bn_kv("v", s->b[i]); tr_str("\n");
		return 1;
	}
	if (s->phase == k + 1) {
		char name[8];
		int n = 0;
		/* modulus n^(s+1) */
		bn_copy(s->b[21], s->b[22]);
		for (size_t j = 0; j < sp; j++) { bn_mul(s->b[21], s->b[21], s->b[22]); }
		for (int i = 0; i < k; i++) {
			snprintf(name, sizeof(name), "c%d", i);
			fault_t *f = find_fault(s, name);
			int copies = 1;
			if (f && !strcmp(f->kind, "drop")) copies = 0;
			if (f && !strcmp(f->kind, "dup")) copies = 2;
			tr_printf("DELIVER %d %s copies=%d\n", s->sid, name, copies);
			for (int c = 0; c < copies; c++) {
				if (n == 0) bn_copy(s->b[20], s->b[4 + i]);
				else { bn_mul(s->b[20], s->b[20], s->b[4 + i]); bn_mod(s->b[20], s->b[20], s->b[21]); }
				n++;
			}
		}
		s->flag[0] = n;
		return 1;
	}
	if (s->phase == k + 2) {
		if (s->flag[0] > 0) {
			int rc;
			if (s->opt[2]) { bn_copy(s->b[19], s->b[20]); rc = cp_ghpe_dec(s->b[19], s->b[19], s->b[22], s->b[23], sp); }
			else rc = cp_ghpe_dec(s->b[19], s->b[20], s->b[22], s->b[23], sp);
			log_rc(s, "dec", rc);
			if (rc == RLC_OK) log_out_bn(s, "sum", s->b[19]);
		}
		return 0;
	}
	return 0;
}

/* ---- Benaloh with an aggregator ---- */
static bdpe_t bd_pub[NSESS], bd_prv[NSESS];
static rabin_t rb_pub[NSESS], rb_prv[NSESS];
static bgn_t bg_pub[NSESS], bg_prv[NSESS];
static sokaka_t sk_a[NSESS], sk_b[NSESS];
static mt_t mt_tri[NSESS][2];
static int c06_ready = 0;
static void c06_init(void) {
	if (c06_ready) return;
	for (int i = 0; i < NSESS; i++) {
		bdpe_null(bd_pub[i]); bdpe_null(bd_prv[i]); bdpe_new(bd_pub[i]); bdpe_new(bd_prv[i]);
		rabin_null(rb_pub[i]); rabin_null(rb_prv[i]); rabin_new(rb_pub[i]); rabin_new(rb_prv[i]);
		bgn_null(bg_pub[i]); bgn_null(bg_prv[i]); bgn_new(bg_pub[i]); bgn_new(bg_prv[i]);
		sokaka_null(sk_a[i]); sokaka_null(sk_b[i]); sokaka_new(sk_a[i]); sokaka_new(sk_b[i]);
		mt_null(mt_tri[i][0]); mt_null(mt_tri[i][1]); mt_new(mt_tri[i][0]); mt_new(mt_tri[i][1]);
	}
	c06_ready = 1;
}

static int sch_bdpe(sess_t *s) {
	int k = (int)s->opt[4];
	/* opt[7] ("ord") selects the block size: a small prime makes the one-in-block key-generation corner cases frequent */
	static const dig_t blocks[] = { 0xFB, 3, 5, 7, 11, 13, 0xFB, 0xFB };
	const dig_t prime = blocks[(unsigned long)s->opt[7] % 8];
	if (k < 1) k = 1;
	if (k > 4) k = 4;
	c06_init();
	if (s->phase == 0) {
		int rc = cp_bdpe_gen(bd_pub[s->sid], bd_prv[s->sid], prime, 512);
		tr_printf("OUT %d block v=%02x\n", s->sid, (unsigned)prime);
		log_rc(s, "gen", rc);
		return rc == RLC_OK;
	}
	if (s->phase <= k) {
		int i = s->phase - 1;
		dig_t in = (dig_t)(s->msg_len > (size_t)i ? s->msg[i] : 7 * i) % prime;
		if (s->opt[5] == 1) in = prime - 1 - (dig_t)i;
		s->blen[i] = BUFSZ;
		log_rc(s, "enc", cp_bdpe_enc(s->buf[i], &s->blen[i], in, bd_pub[s->sid]));
		tr_printf("OUT %d pt%d v=%02x\n", s->sid, i, (unsigned)in);
		return 1;
	}
	if (s->phase == k + 1) {
		char name[8];
		int n = 0;
		for (int i = 0; i < k; i++) {
			snprintf(name, sizeof(name), "c%d", i);
			fault_t *f = find_fault(s, name);
			int copies = 1;
			if (f && !strcmp(f->kind, "drop")) copies = 0;
			if (f && !strcmp(f->kind, "dup")) copies = 2;
			tr_printf("DELIVER %d %s copies=%d\n", s->sid, name, copies);
			bn_read_bin(s->b[1], s->buf[i], s->blen[i]);
			for (int c = 0; c < copies; c++) {
				if (n == 0) bn_copy(s->b[0], s->b[1]);
				else { bn_mul(s->b[0], s->b[0], s->b[1]); bn_mod(s->b[0], s->b[0], bd_pub[s->sid]->n); }
				n++;
			}
		}
		s->flag[0] = n;
		return 1;
	}
	if (s->phase == k + 2) {
		if (s->flag[0] > 0) {
			dig_t out = 0;
			size_t l = bn_size_bin(bd_pub[s->sid]->n);
			bn_write_bin(s->buf[5], l, s->b[0]);
			int rc = cp_bdpe_dec(&out, s->buf[5], l, bd_prv[s->sid]);
			log_rc(s, "dec", rc);
			if (rc == RLC_OK) tr_printf("OUT %d sum v=%02x\n", s->sid, (unsigned)out);
		}
		return 0;
	}
	return 0;
}

/* ---- Rabin ---- */
static int sch_rabin(sess_t *s) {
	c06_init();
	switch (s->phase) {
		case 0: { int rc = cp_rabin_gen(rb_pub[s->sid], rb_prv[s->sid], 768); log_rc(s, "gen", rc); return rc == RLC_OK; }
		case 1: {
			s->blen[0] = BUFSZ;
			int rc = cp_rabin_enc(s->buf[0], &s->blen[0], s->msg, s->msg_len, rb_pub[s->sid]);
			log_rc(s, "enc", rc);
			(void)err_get_code();
			s->flag[0] = rc == RLC_OK;
			return 1;
		}
		case 2:
			if (s->flag[0]) s->blen[1] = xmit_bytes(s, "ct", s->buf[1], s->buf[0], s->blen[0]);
			return 1;
		case 3:
			if (s->flag[0]) {
				s->blen[2] = BUFSZ;
				uint8_t *ct = (uint8_t *)malloc(s->blen[1] ? s->blen[1] : 1);
				memcpy(ct, s->buf[1], s->blen[1]);
				int rc = cp_rabin_dec(s->buf[2], &s->blen[2], ct, s->blen[1], rb_prv[s->sid]);
				free(ct);
				if (err_get_code() != RLC_OK) rc = RLC_ERR;
				log_rc(s, "dec", rc);
				if (rc == RLC_OK) log_out(s, "pt", s->buf[2], s->blen[2]);
			}
			return 0;
	}
	return 0;
}

/* ---- Boneh-Franklin IBE: opt[6] & 1 = the receiver holds the key of another identity ---- */
static int sch_ibe(sess_t *s) {
	switch (s->phase) {
		case 0: log_rc(s, "gen", cp_ibe_gen(s->b[0], s->g1[0])); return 1;
		case 1: log_rc(s, "genprv", cp_ibe_gen_prv(s->g2[0], (s->opt[6] & 1) ? "mallory" : "bob", s->b[0])); return 1;
		case 2:
			s->flag[0] = xmit_g1(s, "pub", s->g1[5], s->g1[0], (int)s->opt[1]) & xmit_g2(s, "prv", s->g2[5], s->g2[0], (int)s->opt[1]);
			return 1;
		case 3:
			if (s->flag[0]) {
				s->blen[0] = BUFSZ;
				int rc = cp_ibe_enc(s->buf[0], &s->blen[0], s->msg, s->msg_len, "bob", s->g1[5]);
				log_rc(s, "enc", rc);
				s->flag[1] = rc == RLC_OK && err_get_code() == RLC_OK;
			}
			return 1;
		case 4:
			if (s->flag[0] && s->flag[1]) s->blen[1] = xmit_bytes(s, "ct", s->buf[1], s->buf[0], s->blen[0]);
			return 1;
		case 5:
			if (s->flag[0] && s->flag[1]) {
				s->blen[2] = BUFSZ;
				uint8_t *ct = (uint8_t *)malloc(s->blen[1] ? s->blen[1] : 1);
				memcpy(ct, s->buf[1], s->blen[1]);
				int rc = cp_ibe_dec(s->buf[2], &s->blen[2], ct, s->blen[1], s->g2[5]);
				free(ct);
				if (err_get_code() != RLC_OK) rc = RLC_ERR;
				log_rc(s, "dec", rc);
				if (rc == RLC_OK) log_out(s, "pt", s->buf[2], s->blen[2]);
			}
			return 0;
	}
	return 0;
}

/* ---- BGN: two small plaintexts, additions in G1/G2 and one multiplication into GT ---- */
static int sch_bgn(sess_t *s) {
	c06_init();
	dig_t m1 = (dig_t)(s->opt[7] % 11), m2 = (dig_t)((s->opt[7] / 11) % 11), m3 = (dig_t)((s->opt[7] / 121) % 7);
	switch (s->phase) {
		case 0: log_rc(s, "gen", cp_bgn_gen(bg_pub[s->sid], bg_prv[s->sid])); return 1;
		case 1:
			/* c1 = Enc1(m1) + Enc1(m3) in g1[0..1]; c2 = Enc2(m2) in g2[0..1] */
			log_rc(s, "enc1", cp_bgn_enc1(s->g1, m1, bg_pub[s->sid]));
			log_rc(s, "enc1", cp_bgn_enc1(s->g1 + 2, m3, bg_pub[s->sid]));
			log_rc(s, "enc2", cp_bgn_enc2(s->g2, m2, bg_pub[s->sid]));
			tr_printf("OUT %d m v=%02x%02x%02x\n", s->sid, (unsigned)m1, (unsigned)m2, (unsigned)m3);
			return 1;
		case 2: {
			int ok = 1;
			/* ciphertext components travel to the evaluator */
			ok &= xmit_g1(s, "c10", s->g1[5], s->g1[0], (int)s->opt[1]);
			ok &= xmit_g1(s, "c11", s->g1[6], s->g1[1], (int)s->opt[1]);
			ok &= xmit_g1(s, "c30", s->g1[7], s->g1[2], (int)s->opt[1]);
			ok &= xmit_g1(s, "c31", s->g1[8], s->g1[3], (int)s->opt[1]);
			ok &= xmit_g2(s, "c20", s->g2[5], s->g2[0], (int)s->opt[1]);
			ok &= xmit_g2(s, "c21", s->g2[6], s->g2[1], (int)s->opt[1]);
			s->flag[0] = ok;
			return 1;
		}
		case 3:
			if (s->flag[0]) {
				dig_t o = 0;
				g1_add(s->g1[5], s->g1[5], s->g1[7]); g1_norm(s->g1[5], s->g1[5]);
				g1_add(s->g1[6], s->g1[6], s->g1[8]); g1_norm(s->g1[6], s->g1[6]);
				int rc = cp_bgn_dec1(&o, (const g1_t *)(s->g1 + 5), bg_prv[s->sid]);
				log_rc(s, "dec1", rc);
				if (rc == RLC_OK) tr_printf("OUT %d sum1 v=%02x\n", s->sid, (unsigned)o);
				rc = cp_bgn_mul(s->gt, (const g1_t *)(s->g1 + 5), (const g2_t *)(s->g2 + 5));
				log_rc(s, "mul", rc);
				if (rc == RLC_OK) {
					rc = cp_bgn_dec(&o, (const gt_t *)s->gt, bg_prv[s->sid]);
					log_rc(s, "dec", rc);
					if (rc == RLC_OK) tr_printf("OUT %d prod v=%02x\n", s->sid, (unsigned)o);
				}
			}
			return 0;
	}
	return 0;
}

/* ---- SOK non-interactive key agreement: opt[4] selects the pair of identities ---- */
static const char *SOK_A[] = { "alice", "Bob", "ab", "a", "x", "same-length-1", "Zed", "node-10" };
static const char *SOK_B[] = { "bob", "Bobby", "a", "ab", "xy", "same-length-2", "zed", "node-1" };
static int sch_sokaka(sess_t *s) {
	c06_init();
	const char *ida = SOK_A[s->opt[4] % 8], *idb = SOK_B[s->opt[4] % 8];
	switch (s->phase) {
		case 0: log_rc(s, "gen", cp_sokaka_gen(s->b[0])); return 1;
		case 1: log_rc(s, "prvA", cp_sokaka_gen_prv(sk_a[s->sid], ida, s->b[0])); return 1;
		case 2: log_rc(s, "prvB", cp_sokaka_gen_prv(sk_b[s->sid], (s->opt[6] & 1) ? "carol" : idb, s->b[0])); return 1;
		case 3: {
			int rc = cp_sokaka_key(s->buf[0], (size_t)s->opt[3], ida, sk_a[s->sid], idb);
			log_rc(s, "keyA", rc);
			if (rc == RLC_OK) log_out(s, "keyA", s->buf[0], (size_t)s->opt[3]);
			return 1;
		}
		case 4: {
			int rc = cp_sokaka_key(s->buf[1], (size_t)s->opt[3], idb, sk_b[s->sid], ida);
			log_rc(s, "keyB", rc);
			if (rc == RLC_OK) log_out(s, "keyB", s->buf[1], (size_t)s->opt[3]);
			return 0;
		}
	}
	return 0;
}

/* ---- Beaver multiplication between two parties with an explicit broadcast round ---- */
static int sch_mt(sess_t *s) {
	c06_init();
	mt_t *tri = mt_tri[s->sid];
	switch (s->phase) {
		case 0:
			mpc_mt_gen(tri, ord);
			/* secret inputs x, y and their additive shares: x = b[0] + b[1], y = b[2] + b[3] */
			for (int i = 0; i < 4; i++) { bn_rand_mod(s->b[i], ord); }
			if (s->opt[6] == 1) { bn_zero(s->b[0]); bn_zero(s->b[1]); }
			bn_add(s->b[20], s->b[0], s->b[1]); bn_mod(s->b[20], s->b[20], ord);
			bn_add(s->b[21], s->b[2], s->b[3]); bn_mod(s->b[21], s->b[21], ord);
			log_out_bn(s, "x", s->b[20]); log_out_bn(s, "y", s->b[21]);
			return 1;
		case 1: mpc_mt_lcl(s->b[4], s->b[6], s->b[0], s->b[2], ord, tri[0]); return 1;		/* party 0: d0 b[4], e0 b[6] */
		case 2: mpc_mt_lcl(s->b[5], s->b[7], s->b[1], s->b[3], ord, tri[1]); return 1;		/* party 1: d1 b[5], e1 b[7] */
		case 3: {
			/* broadcast: each party receives the other's (d, e); party 0's view b[8..11], party 1's b[12..15] */
			int ok = 1;
			bn_copy(s->b[8], s->b[4]); bn_copy(s->b[10], s->b[6]);
			ok &= xmit_bn(s, "d1", s->b[9], s->b[5], 0); ok &= xmit_bn(s, "e1", s->b[11], s->b[7], 0);
			bn_copy(s->b[13], s->b[5]); bn_copy(s->b[15], s->b[7]);
			ok &= xmit_bn(s, "d0", s->b[12], s->b[4], 0); ok &= xmit_bn(s, "e0", s->b[14], s->b[6], 0);
			s->flag[0] = ok;
			return 1;
		}
		case 4:
			if (s->flag[0]) {
				mpc_mt_bct(s->b + 8, s->b + 10, ord);
				mpc_mt_mul(s->b[16], s->b[8], s->b[10], ord, tri[0], 0);
				log_out_bn(s, "r0", s->b[16]);
			}
			return 1;
		case 5:
			if (s->flag[0]) {
				mpc_mt_bct(s->b + 12, s->b + 14, ord);
				mpc_mt_mul(s->b[17], s->b[12], s->b[14], ord, tri[1], 1);
				log_out_bn(s, "r1", s->b[17]);
			}
			return 0;
	}
	return 0;
}

/* ---- delegated pairing with public inputs: pdpub / lvpub; the helper may be dishonest ---- */
static int sch_pdpub(sess_t *s) {
	int lv = !strcmp(s->scheme, "lvpub");
	int ng = lv ? 2 : 3;
	char name[8];
	switch (s->phase) {
		case 0:
			if (lv) log_rc(s, "gen", cp_lvpub_gen(s->b[1], s->g1[0], s->g2[0], s->g2[1], s->gt[0]));
			else log_rc(s, "gen", cp_pdpub_gen(s->b[0], s->b[1], s->g1[0], s->g2[0], s->g2[1], s->gt[0]));
			g1_rand(s->g1[1]); g2_rand(s->g2[2]);		/* the pairing to compute: e(P, Q) */
			return 1;
		case 1:
			if (lv) log_rc(s, "ask", cp_lvpub_ask(s->b[0], s->g1[2], s->g2[3], s->g1[1], s->g2[2], s->b[1], s->g1[0], s->g2[0], s->g2[1]));
			else log_rc(s, "ask", cp_pdpub_ask(s->g1[2], s->g2[3], s->g1[1], s->g2[2], s->b[0], s->b[1], s->g1[0], s->g2[0], s->g2[1]));
			return 1;
		case 2:
			/* helper */
			if (lv) log_rc(s, "ans", cp_lvpub_ans(s->gt + 1, s->g1[1], s->g2[2], s->g1[2], s->g2[1], s->g2[3]));
			else log_rc(s, "ans", cp_pdpub_ans(s->gt + 1, s->g1[1], s->g2[2], s->g1[2], s->g2[1], s->g2[3]));
			return 1;
		case 3: {
			int ok = 1;
			for (int i = 0; i < ng; i++) {
				snprintf(name, sizeof(name), "g%d", i);
				ok &= xmit_gt(s, name, s->gt[5 + i], s->gt[1 + i], 0);
			}
			s->flag[0] = ok;
			return 1;
		}
		case 4:
			if (s->flag[0]) {
				int v = lv ? cp_lvpub_ver(s->gt[4], (const gt_t *)(s->gt + 5), s->b[0], s->gt[0])
						: cp_pdpub_ver(s->gt[4], (const gt_t *)(s->gt + 5), s->b[0], s->gt[0]);
				log_ver(s, "ver", v == 1);
				if (v == 1) {
					pc_map(s->gt[9], s->g1[1], s->g2[2]);
					tr_printf("OUT %d match v=%02x\n", s->sid, gt_cmp(s->gt[4], s->gt[9]) == RLC_EQ ? 1 : 0);
				}
			} else tr_printf("VER %d ver decode-failed\n", s->sid);
			return 0;
	}
	return 0;
}

/* ---- delegated pairing with private inputs: pdprv / lvprv ---- */
static int sch_pdprv(sess_t *s) {
	int lv = !strcmp(s->scheme, "lvprv");
	char name[8];
	/* c b[0], r[3] b[1..3], u1[2] g1[0..1], u2[2] g2[0..1], v2[4] g2[2..5], e[2] gt[0..1]; P g1[2], Q g2[6];
	 * v1[3] g1[3..5], w2[4] g2[6..9]?  -> keep Q in g2[9] and w2 in g2[5..8] after v2 moves: use separate ranges */
	switch (s->phase) {
		case 0:
			if (lv) log_rc(s, "gen", cp_lvprv_gen(s->b[0], s->b + 1, s->g1, s->g2, s->g2 + 2, s->gt));
			else log_rc(s, "gen", cp_pdprv_gen(s->b[0], s->b + 1, s->g1, s->g2, s->g2 + 2, s->gt));
			g1_rand(s->g1[2]); g2_rand(s->g2[9]);
			return 1;
		case 1: {
			/* w2[4] needs four G2 slots: the gt array is not used for them, so borrow a second session-local array */
			static g2_t w2[NSESS][4];
			static int w2_ready = 0;
			if (!w2_ready) { for (int a = 0; a < NSESS; a++) { for (int b = 0; b < 4; b++) { g2_null(w2[a][b]); g2_new(w2[a][b]); } } w2_ready = 1; }
			if (lv) log_rc(s, "ask", cp_lvprv_ask(s->g1 + 3, w2[s->sid], s->g1[2], s->g2[9], s->b[0], (const bn_t *)(s->b + 1), (const g1_t *)s->g1, (const g2_t *)s->g2, (const g2_t *)(s->g2 + 2)));
			else log_rc(s, "ask", cp_pdprv_ask(s->g1 + 3, w2[s->sid], s->g1[2], s->g2[9], s->b[0], (const bn_t *)(s->b + 1), (const g1_t *)s->g1, (const g2_t *)s->g2, (const g2_t *)(s->g2 + 2)));
			/* helper answers at once in the next phase from the same arrays */
			if (lv) log_rc(s, "ans", cp_lvprv_ans(s->gt + 2, (const g1_t *)(s->g1 + 3), (const g2_t *)w2[s->sid]));
			else log_rc(s, "ans", cp_pdprv_ans(s->gt + 2, (const g1_t *)(s->g1 + 3), (const g2_t *)w2[s->sid]));
			return 1;
		}
		case 2: {
			int ok = 1;
			for (int i = 0; i < 4; i++) {
				snprintf(name, sizeof(name), "g%d", i);
				gt_copy(s->gt[8], s->gt[2 + i]);
				ok &= xmit_gt(s, name, s->gt[2 + i], s->gt[8], 0);
			}
			s->flag[0] = ok;
			return 1;
		}
		case 3:
			if (s->flag[0]) {
				int v = lv ? cp_lvprv_ver(s->gt[7], (const gt_t *)(s->gt + 2), s->b[0], (const gt_t *)s->gt)
						: cp_pdprv_ver(s->gt[7], (const gt_t *)(s->gt + 2), s->b[0], (const gt_t *)s->gt);
				log_ver(s, "ver", v == 1);
				if (v == 1) {
					pc_map(s->gt[9], s->g1[2], s->g2[9]);
					tr_printf("OUT %d match v=%02x\n", s->sid, gt_cmp(s->gt[7], s->gt[9]) == RLC_EQ ? 1 : 0);
				}
			} else tr_printf("VER %d ver decode-failed\n", s->sid);
			return 0;
	}
	return 0;
}

/* ---- pairing-based PSI: client set b[0..m-1], server set b[8..8+n-1], overlap from opt ---- */
static int sch_pbpsi(sess_t *s) {
	size_t m = (size_t)(s->opt[4] % 5), n = (size_t)(s->opt[5] % 5);
	size_t ov = (size_t)(s->opt[6] % 5);
	static g2_t ss2[NSESS][6], dd[NSESS][6];
	static gt_t tt[NSESS][5];
	static g1_t uu[NSESS][5];
	static int ready = 0;
	if (!ready) {
		for (int a = 0; a < NSESS; a++) {
			for (int b = 0; b < 6; b++) { g2_null(ss2[a][b]); g2_new(ss2[a][b]); g2_null(dd[a][b]); g2_new(dd[a][b]); }
			for (int b = 0; b < 5; b++) { gt_null(tt[a][b]); gt_new(tt[a][b]); g1_null(uu[a][b]); g1_new(uu[a][b]); }
		}
		ready = 1;
	}
	if (ov > m) ov = m;
	if (ov > n) ov = n;
	switch (s->phase) {
		case 0:
			for (size_t i = 0; i < m; i++) { bn_rand_mod(s->b[i], ord); }
			for (size_t i = 0; i < n; i++) { if (i < ov) bn_copy(s->b[8 + i], s->b[i]); else bn_rand_mod(s->b[8 + i], ord); }
			tr_printf("SETS %d m=%zu n=%zu ov=%zu\n", s->sid, m, n, ov);
			log_rc(s, "gen", cp_pbpsi_gen(s->b[20], s->g1[0], ss2[s->sid], m));
			return 1;
		case 1: log_rc(s, "ask", cp_pbpsi_ask(dd[s->sid], s->b[21], (const bn_t *)s->b, (const g2_t *)ss2[s->sid], m)); return 1;
		case 2: log_rc(s, "ans", cp_pbpsi_ans(tt[s->sid], uu[s->sid], s->g1[0], dd[s->sid][0], (const bn_t *)(s->b + 8), n)); return 1;
		case 3: {
			size_t len = 0;
			/* an intersection with the client's m elements has at most m: the output array has exactly that many */
			size_t zc = m ? m : 1;
			bn_t *z = (bn_t *)malloc(sizeof(bn_t) * zc);
			for (size_t i = 0; i < zc; i++) { bn_null(z[i]); bn_new(z[i]); }
			int dupans = s->opt[2] == 1 && n >= 2;
			if (dupans) {
				/* the server's answer for its first element is delivered twice (in place of its second answer) */
				gt_copy(tt[s->sid][1], tt[s->sid][0]);
				g1_copy(uu[s->sid][1], uu[s->sid][0]);
			}
			tr_printf("NOTE %d answer-duplicated=%d\n", s->sid, dupans);
			int rc = cp_pbpsi_int(z, &len, (const g2_t *)dd[s->sid], (const bn_t *)s->b, m, (const gt_t *)tt[s->sid], (const g1_t *)uu[s->sid], n);
			log_rc(s, "int", rc);
			if (rc == RLC_OK) {
				/* which client elements came out */
				tr_printf("OUT %d inter v=", s->sid);
				int mask = 0;
				for (size_t j = 0; j < len && j < zc; j++) { for (size_t i = 0; i < m; i++) { if (bn_cmp(z[j], s->b[i]) == RLC_EQ) mask |= 1 << i; } }
				tr_printf("%02x\n", mask);
				tr_printf("OUT %d interlen v=%02zx\n", s->sid, len);
			}
			for (size_t i = 0; i < zc; i++) { bn_free(z[i]); }
			free(z);
			return 0;
		}
	}
	return 0;
}

/* ---- RSA-accumulator PSI (rsapsi) and its size-hiding variant (shipsi): client set b[0..m-1],
 * server set b[8..8+n-1]; the client's query d and the server's answer (t[], u[] / u) cross the wire ---- */
static int sch_rsapsi(sess_t *s) {
	int shi = !strcmp(s->scheme, "shipsi");
	size_t m = (size_t)(s->opt[4] % 5), n = (size_t)(s->opt[5] % 5);
	size_t ov = (size_t)(s->opt[6] % 5);
	size_t bits = 256 + 128 * (size_t)(s->opt[2] % 3);
	static bn_t pp[NSESS][5], tt[NSESS][5], uu[NSESS][5], tr[NSESS][5], ur[NSESS][5];
	static crt_t crt[NSESS];
	static int ready = 0;
	if (!ready) {
		for (int a = 0; a < NSESS; a++) {
			for (int b = 0; b < 5; b++) {
				bn_null(pp[a][b]); bn_new(pp[a][b]); bn_null(tt[a][b]); bn_new(tt[a][b]); bn_null(uu[a][b]); bn_new(uu[a][b]);
				bn_null(tr[a][b]); bn_new(tr[a][b]); bn_null(ur[a][b]); bn_new(ur[a][b]);
			}
			crt_null(crt[a]); crt_new(crt[a]);
		}
		ready = 1;
	}
	if (ov > m) ov = m;
	if (ov > n) ov = n;
	/* b[20] = g, b[21] = modulus, b[22] = d, b[23] = r, b[19] = d as received */
	switch (s->phase) {
		case 0: {
			size_t eb = 8 + (size_t)(s->opt[3] % 200);
			for (int b = 0; b < 5; b++) { bn_zero(pp[s->sid][b]); bn_zero(tt[s->sid][b]); bn_zero(uu[s->sid][b]); bn_zero(tr[s->sid][b]); bn_zero(ur[s->sid][b]); }
			for (size_t i = 0; i < m; i++) { bn_rand(s->b[i], RLC_POS, eb); bn_add_dig(s->b[i], s->b[i], (dig_t)i); }
			for (size_t i = 0; i < n; i++) { if (i < ov) bn_copy(s->b[8 + i], s->b[i]); else { bn_rand(s->b[8 + i], RLC_POS, eb + 1); bn_set_bit(s->b[8 + i], eb, 1); } }
			tr_printf("SETS %d m=%zu n=%zu ov=%zu bits=%zu\n", s->sid, m, n, ov, bits);
			if (shi) {
				log_rc(s, "gen", cp_shipsi_gen(s->b[20], crt[s->sid], bits));
				bn_copy(s->b[21], crt[s->sid]->n);
			} else {
				log_rc(s, "gen", cp_rsapsi_gen(s->b[20], s->b[21], bits));
			}
			return 1;
		}
		case 1:
			if (shi) log_rc(s, "ask", cp_shipsi_ask(s->b[22], s->b[23], pp[s->sid], s->b[20], s->b[21], (const bn_t *)s->b, m));
			else log_rc(s, "ask", cp_rsapsi_ask(s->b[22], s->b[23], pp[s->sid], s->b[20], s->b[21], (const bn_t *)s->b, m));
			s->flag[0] = xmit_bn(s, "d", s->b[19], s->b[22], 0);
			return 1;
		case 2: {
			int ok = s->flag[0];
			if (!ok || bn_sign(s->b[19]) == RLC_NEG || bn_bits(s->b[19]) > bits + 8) { tr_printf("NOTE %d server-refused-query\n", s->sid); s->flag[1] = 0; return 1; }
			if (shi) log_rc(s, "ans", cp_shipsi_ans(tt[s->sid], uu[s->sid][0], s->b[19], s->b[20], crt[s->sid], (const bn_t *)(s->b + 8), n));
			else log_rc(s, "ans", cp_rsapsi_ans(tt[s->sid], uu[s->sid], s->b[19], s->b[20], s->b[21], (const bn_t *)(s->b + 8), n));
			char nm[8];
			for (size_t j = 0; j < n; j++) {
				snprintf(nm, sizeof(nm), "t%zu", j);
				ok &= xmit_bn(s, nm, tr[s->sid][j], tt[s->sid][j], 0);
				if (!shi) {
					snprintf(nm, sizeof(nm), "u%zu", j);
					ok &= xmit_bn(s, nm, ur[s->sid][j], uu[s->sid][j], 0);
				}
			}
			if (shi) ok &= xmit_bn(s, "u", ur[s->sid][0], uu[s->sid][0], 0);
			for (size_t j = 0; j < 5; j++) {
				if (bn_sign(tr[s->sid][j]) == RLC_NEG || bn_sign(ur[s->sid][j]) == RLC_NEG || bn_bits(tr[s->sid][j]) > bits + 8 || bn_bits(ur[s->sid][j]) > bits + 8) ok = 0;
			}
			s->flag[1] = ok;
			return 1;
		}
		case 3: {
			size_t len = 0;
			bn_t z[32];
			if (!s->flag[1]) { tr_printf("NOTE %d client-refused-answer\n", s->sid); return 0; }
			for (int i = 0; i < 32; i++) { bn_null(z[i]); bn_new(z[i]); }
			int rc;
			if (shi) rc = cp_shipsi_int(z, &len, s->b[23], (const bn_t *)pp[s->sid], s->b[21], (const bn_t *)s->b, m, (const bn_t *)tr[s->sid], ur[s->sid][0], n);
			else rc = cp_rsapsi_int(z, &len, s->b[23], (const bn_t *)pp[s->sid], s->b[21], (const bn_t *)s->b, m, (const bn_t *)tr[s->sid], (const bn_t *)ur[s->sid], n);
			log_rc(s, "int", rc);
			if (rc == RLC_OK) {
				tr_printf("OUT %d inter v=", s->sid);
				int mask = 0;
				for (size_t j = 0; j < len && j < 32; j++) { for (size_t i = 0; i < m; i++) { if (bn_cmp(z[j], s->b[i]) == RLC_EQ) mask |= 1 << i; } }
				tr_printf("%02x\n", mask);
				tr_printf("OUT %d interlen v=%02zx\n", s->sid, len);
			}
			for (int i = 0; i < 32; i++) { bn_free(z[i]); }
			return 0;
		}
	}
	return 0;
}

/* ---- Pedersen commitment: commit, later open; homomorphic combination of two commitments ---- */
static int sch_ped(sess_t *s) {
	switch (s->phase) {
		case 0:
			ec_rand(s->e[0]);										/* second generator h */
			bn_rand_mod(s->b[0], ord); bn_rand_mod(s->b[1], ord);	/* r, x */
			bn_rand_mod(s->b[2], ord); bn_rand_mod(s->b[3], ord);	/* r', x' */
			log_rc(s, "com", cp_ped_com(s->e[1], s->e[0], s->b[0], s->b[1]));
			log_rc(s, "com2", cp_ped_com(s->e[2], s->e[0], s->b[2], s->b[3]));
			return 1;
		case 1:
			s->flag[0] = xmit_ec(s, "c", s->e[5], s->e[1], (int)s->opt[1]) & xmit_ec(s, "c2", s->e[6], s->e[2], (int)s->opt[1]);
			return 1;
		case 2:
			s->flag[1] = xmit_bn(s, "r", s->b[12], s->b[0], 0) & xmit_bn(s, "x", s->b[13], s->b[1], 0);
			return 1;
		case 3:
			if (s->flag[0] && s->flag[1]) {
				/* verifier recomputes */
				int rc = cp_ped_com(s->e[7], s->e[0], s->b[12], s->b[13]);
				log_rc(s, "recom", rc);
				if (rc == RLC_OK) log_ver(s, "open", ec_cmp(s->e[7], s->e[5]) == RLC_EQ);
				/* homomorphic: c + c2 opens to (r + r', x + x') */
				bn_add(s->b[14], s->b[0], s->b[2]); bn_mod(s->b[14], s->b[14], ord);
				bn_add(s->b[15], s->b[1], s->b[3]); bn_mod(s->b[15], s->b[15], ord);
				if (!bn_is_zero(s->b[15])) {
					rc = cp_ped_com(s->e[8], s->e[0], s->b[14], s->b[15]);
					ec_add(s->e[9], s->e[1], s->e[2]); ec_norm(s->e[9], s->e[9]);
					if (rc == RLC_OK) log_ver(s, "homo", ec_cmp(s->e[8], s->e[9]) == RLC_EQ);
				}
			} else tr_printf("VER %d open decode-failed\n", s->sid);
			return 0;
	}
	return 0;
}


/*============================================================================*/
/* Batch 3: threshold / same-message-linkable ring signatures, cmlhs, mpss, shpe, MPC forms   */
/*============================================================================*/

static etrs_t tr_a[NSESS][4], tr_b[NSESS][4];
static smlers_t sm_a[NSESS][3], sm_b[NSESS][3];
static int b3_ready = 0;
static shpe_t sh_pub[NSESS], sh_prv[NSESS];
static pt_t pc_tri[NSESS][2];
static mt_t mt3[NSESS][3][2];
static g1_t mg1[NSESS][8];
static g2_t mg2[NSESS][8];
static gt_t mgt[NSESS][8];
static void b3_init(void) {
	if (b3_ready) return;
	for (int i = 0; i < NSESS; i++) {
		for (int j = 0; j < 4; j++) { etrs_null(tr_a[i][j]); etrs_new(tr_a[i][j]); etrs_null(tr_b[i][j]); etrs_new(tr_b[i][j]); }
		for (int j = 0; j < 3; j++) { smlers_null(sm_a[i][j]); smlers_new(sm_a[i][j]); smlers_null(sm_b[i][j]); smlers_new(sm_b[i][j]); }
		shpe_null(sh_pub[i]); shpe_null(sh_prv[i]); shpe_new(sh_pub[i]); shpe_new(sh_prv[i]);
		for (int j = 0; j < 2; j++) { pt_null(pc_tri[i][j]); pt_new(pc_tri[i][j]); }
		for (int a = 0; a < 3; a++) { for (int j = 0; j < 2; j++) { mt_null(mt3[i][a][j]); mt_new(mt3[i][a][j]); } }
		for (int j = 0; j < 8; j++) {
			g1_null(mg1[i][j]); g1_new(mg1[i][j]); g2_null(mg2[i][j]); g2_new(mg2[i][j]); gt_null(mgt[i][j]); gt_new(mgt[i][j]);
		}
	}
	b3_ready = 1;
}

/* ---- extendable threshold ring signature: opt[4] = number of extensions (0..2), max = 4 ---- */
static int sch_etrs(sess_t *s) {
	size_t ext = (size_t)(s->opt[4] % 3);
	char name[12];
	b3_init();
	etrs_t *ra = tr_a[s->sid], *rb = tr_b[s->sid];
	/* td[] b[4..7], y[] b[8..11]; keys sk b[0..2], pk e[1..3]; pp e[0] */
	switch (s->phase) {
		case 0:
			log_rc(s, "genpp", cp_ers_gen(s->e[0]));
			for (int i = 0; i < 3; i++) { log_rc(s, "genkey", cp_ers_gen_key(s->b[i], s->e[1 + i])); }
			log_rc(s, "genkey", cp_ers_gen_key(s->b[3], s->e[4]));		/* a second signer who may join later */
			s->opt[3] = 1;													/* number of actual signers */
			return 1;
		case 1:
			log_rc(s, "sig", cp_etrs_sig(s->b + 4, s->b + 8, 4, ra[0], s->msg, s->msg_len, s->b[0], s->e[1], s->e[0]));
			s->blen[5] = 1;
			return 1;
		case 2: {
			size_t size = 1;
			for (size_t j = 1; j <= ext; j++) {
				int rc = cp_etrs_ext(s->b + 4, s->b + 8, 4, (etrs_t *)ra, &size, s->msg, s->msg_len, s->e[1 + j], s->e[0]);
				log_rc(s, "ext", rc);
				if (rc != RLC_OK) break;
			}
			s->blen[5] = size;
			s->blen[4] = size - 1;			/* entries of td/y consumed by the extensions */
			if (s->opt[6] & 1) {
				/* opt cls: a second signer joins after the extensions (sign -> extend* -> join) */
				size_t used = size - 1;
				int rc = cp_etrs_uni(1, s->b + 4 + used, s->b + 8 + used, (int)(4 - used), (etrs_t *)ra, &size, s->msg, s->msg_len, s->b[3], s->e[4], s->e[0]);
				log_rc(s, "uni", rc);
				if (rc == RLC_OK) { s->blen[5] = size; s->opt[3] = 2; }
			}
			{
				fault_t *f = find_fault(s, "forge");
				size = s->blen[5];
				if (f && !strcmp(f->kind, "v_forgeext") && size < 3) {
					/* a ring member forged without using up a trapdoor slot: a fresh evaluation point, h = [t]G for
					 * a known t and a proof for the h-side, exactly what cp_etrs_ext builds - but the point is not
					 * on the polynomial.  Nobody signed for it, so it must not count towards a threshold. */
					ec_t w[2];
					bn_t t;
					bn_null(t); bn_new(t);
					ec_null(w[0]); ec_null(w[1]); ec_new(w[0]); ec_new(w[1]);
					bn_rand_mod(t, ord);
					bn_rand_mod(ra[size]->y, ord);
					ec_mul_gen(ra[size]->h, t);
					ec_copy(ra[size]->pk, s->e[1 + size]);
					ec_copy(w[0], ra[size]->h);
					ec_copy(w[1], ra[size]->pk);
					cp_sokor_sig(ra[size]->c, ra[size]->r, s->msg, s->msg_len, (const ec_t *)w, NULL, t, 1);
					s->blen[5] = size + 1;
					tr_printf("NOTE %d forged-extension\n", s->sid);
					ec_free(w[0]); ec_free(w[1]); bn_free(t);
				}
			}
			return 1;
		}
		case 3: {
			int ok = 1;
			size_t size = s->blen[5], used = s->blen[4];
			ok &= xmit_ec(s, "pp", s->e[5], s->e[0], (int)s->opt[1]);
			for (size_t i = used; i < 4; i++) {
				snprintf(name, sizeof(name), "td%zu", i); ok &= xmit_bn(s, name, s->b[12 + i], s->b[4 + i], 0);
				snprintf(name, sizeof(name), "y%zu", i); ok &= xmit_bn(s, name, s->b[16 + i], s->b[8 + i], 0);
			}
			for (size_t i = 0; i < size; i++) {
				snprintf(name, sizeof(name), "ry%zu", i); ok &= xmit_bn(s, name, rb[i]->y, ra[i]->y, 0);
				snprintf(name, sizeof(name), "h%zu", i); ok &= xmit_ec(s, name, rb[i]->h, ra[i]->h, (int)s->opt[1]);
				snprintf(name, sizeof(name), "pk%zu", i); ok &= xmit_ec(s, name, rb[i]->pk, ra[i]->pk, (int)s->opt[1]);
				snprintf(name, sizeof(name), "c%zu0", i); ok &= xmit_bn(s, name, rb[i]->c[0], ra[i]->c[0], 0);
				snprintf(name, sizeof(name), "c%zu1", i); ok &= xmit_bn(s, name, rb[i]->c[1], ra[i]->c[1], 0);
				snprintf(name, sizeof(name), "r%zu0", i); ok &= xmit_bn(s, name, rb[i]->r[0], ra[i]->r[0], 0);
				snprintf(name, sizeof(name), "r%zu1", i); ok &= xmit_bn(s, name, rb[i]->r[1], ra[i]->r[1], 0);
			}
			s->blen[0] = xmit_bytes(s, "msg", s->buf[0], s->msg, s->msg_len);
			s->flag[0] = ok;
			return 1;
		}
		case 4:
			if (s->flag[0]) {
				size_t used = s->blen[4];
				size_t nsig = s->opt[3];
				log_ver(s, "ver", cp_etrs_ver(nsig, (const bn_t *)(s->b + 12 + used), (const bn_t *)(s->b + 16 + used), 4 - used,
						(const etrs_t *)rb, s->blen[5], s->buf[0], s->blen[0], s->e[5]) == 1);
				/* a higher threshold than the number of actual signers (one) must not verify.  With
				 * thres > size cp_etrs_ver indexes its scratch arrays out of bounds (known finding), so that
				 * case is only driven when the plan asks for it (opt n = 7). */
				if (s->blen[5] >= nsig + 1 || s->opt[5] == 7) {
					log_ver(s, "ver2", cp_etrs_ver(nsig + 1, (const bn_t *)(s->b + 12 + used), (const bn_t *)(s->b + 16 + used), 4 - used,
							(const etrs_t *)rb, s->blen[5], s->buf[0], s->blen[0], s->e[5]) == 1);
				}
			} else tr_printf("VER %d ver decode-failed\n", s->sid);
			return 0;
	}
	return 0;
}

/* ---- same-message linkable extendable ring signature ---- */
static int sch_smlers(sess_t *s) {
	size_t want = (size_t)(1 + s->opt[4] % 3);
	char name[12];
	b3_init();
	smlers_t *ra = sm_a[s->sid], *rb = sm_b[s->sid];
	switch (s->phase) {
		case 0:
			log_rc(s, "genpp", cp_ers_gen(s->e[0]));
			for (int i = 0; i < 3; i++) { log_rc(s, "genkey", cp_ers_gen_key(s->b[i], s->e[1 + i])); }
			return 1;
		case 1:
			log_rc(s, "sig", cp_smlers_sig(s->b[4], ra[0], s->msg, s->msg_len, s->b[0], s->e[1], s->e[0]));
			s->blen[5] = 1;
			return 1;
		case 2: {
			size_t size = 1;
			while (size < want) {
				int rc = cp_smlers_ext(s->b[4], (smlers_t *)ra, &size, s->msg, s->msg_len, s->e[1 + size], s->e[0]);
				log_rc(s, "ext", rc);
				if (rc != RLC_OK) break;
			}
			s->blen[5] = size;
			return 1;
		}
		case 3: {
			int ok = 1;
			size_t size = s->blen[5];
			ok &= xmit_ec(s, "pp", s->e[5], s->e[0], (int)s->opt[1]);
			ok &= xmit_bn(s, "td", s->b[12], s->b[4], 0);
			for (size_t i = 0; i < size; i++) {
				snprintf(name, sizeof(name), "h%zu", i); ok &= xmit_ec(s, name, rb[i]->sig->h, ra[i]->sig->h, (int)s->opt[1]);
				snprintf(name, sizeof(name), "pk%zu", i); ok &= xmit_ec(s, name, rb[i]->sig->pk, ra[i]->sig->pk, (int)s->opt[1]);
				snprintf(name, sizeof(name), "sc%zu0", i); ok &= xmit_bn(s, name, rb[i]->sig->c[0], ra[i]->sig->c[0], 0);
				snprintf(name, sizeof(name), "sc%zu1", i); ok &= xmit_bn(s, name, rb[i]->sig->c[1], ra[i]->sig->c[1], 0);
				snprintf(name, sizeof(name), "sr%zu0", i); ok &= xmit_bn(s, name, rb[i]->sig->r[0], ra[i]->sig->r[0], 0);
				snprintf(name, sizeof(name), "sr%zu1", i); ok &= xmit_bn(s, name, rb[i]->sig->r[1], ra[i]->sig->r[1], 0);
				snprintf(name, sizeof(name), "tau%zu", i); ok &= xmit_ec(s, name, rb[i]->tau, ra[i]->tau, (int)s->opt[1]);
				snprintf(name, sizeof(name), "c%zu0", i); ok &= xmit_bn(s, name, rb[i]->c[0], ra[i]->c[0], 0);
				snprintf(name, sizeof(name), "c%zu1", i); ok &= xmit_bn(s, name, rb[i]->c[1], ra[i]->c[1], 0);
				snprintf(name, sizeof(name), "r%zu0", i); ok &= xmit_bn(s, name, rb[i]->r[0], ra[i]->r[0], 0);
				snprintf(name, sizeof(name), "r%zu1", i); ok &= xmit_bn(s, name, rb[i]->r[1], ra[i]->r[1], 0);
			}
			s->blen[0] = xmit_bytes(s, "msg", s->buf[0], s->msg, s->msg_len);
			s->flag[0] = ok;
			return 1;
		}
		case 4:
			if (s->flag[0]) log_ver(s, "ver", cp_smlers_ver(s->b[12], (smlers_t *)rb, s->blen[5], EX(s->buf[0], s->blen[0]), s->blen[0], s->e[5]) == 1);
			else tr_printf("VER %d ver decode-failed\n", s->sid);
			return 0;
	}
	return 0;
}

/* ---- context-hiding multi-key linearly homomorphic signatures: 2 signers x 2 labels; opt[6] & 1 = BLS variant ---- */
static int sch_cmlhs(sess_t *s) {
	static const char *data = "database-identifier";
	enum { SS = 2, LL = 2 };
	static gt_t hs[NSESS][SS][RLC_TERMS];
	static uint8_t prf[NSESS][SS][RLC_MD_LEN];
	static g1_t cg1[NSESS][24];
	static g2_t cg2[NSESS][16];
	static bn_t cx[NSESS][SS][LL];
	static int ready = 0;
	int bls = (int)(s->opt[6] & 1);
	b3_init();
	if (!ready) {
		for (int a = 0; a < NSESS; a++) {
			for (int j = 0; j < SS; j++) {
				for (int t = 0; t < RLC_TERMS; t++) { gt_null(hs[a][j][t]); gt_new(hs[a][j][t]); }
				for (int l = 0; l < LL; l++) { bn_null(cx[a][j][l]); bn_new(cx[a][j][l]); }
			}
			for (int t = 0; t < 24; t++) { g1_null(cg1[a][t]); g1_new(cg1[a][t]); }
			for (int t = 0; t < 16; t++) { g2_null(cg2[a][t]); g2_new(cg2[a][t]); }
		}
		ready = 1;
	}
	/* per-session objects: h cg1[0]; sig[j] cg1[1 + j]; a[j][l] cg1[3 + 2j + l]; c[j][l] cg1[7 + 2j + l]; r[j][l] cg1[11 + 2j + l];
	 * as[j] cg1[15 + j]; cs[j] cg1[17 + j]; _r cg1[19]; received: _r' cg1[20], as' cg1[21..22] (cs' reuse 17..18 in place)
	 * g2: z[j] cg2[j]; s[j][l] cg2[2 + 2j + l]; pk[j] cg2[6 + j]; y[j] cg2[8 + j]; _s cg2[10]; received _s' cg2[11], pk' 12..13, y' 14..15
	 * bn: sk[j] b[j]; d[j] b[2 + j]; msg[j][l] b[4 + 2j + l]; m b[8]; received m' b[12] */
	g1_t *G = cg1[s->sid];
	g2_t *H = cg2[s->sid];
	dig_t f[SS][LL];
	for (int j = 0; j < SS; j++) { for (int l = 0; l < LL; l++) { f[j][l] = (dig_t)(1 + ((s->opt[7] >> (4 * (2 * j + l))) & 15)); } }
	switch (s->phase) {
		case 0:
			/* in the ECDSA variant the key objects of type g2_t carry a prime-curve point in their first
			 * coordinates only; give everything defined contents first */
			for (int j = 0; j < 16; j++) { fp2_zero(H[j]->x); fp2_zero(H[j]->y); fp2_zero(H[j]->z); g2_set_infty(H[j]); }
			for (int j = 0; j < 24; j++) { g1_set_infty(G[j]); }
			log_rc(s, "init", cp_cmlhs_init(G[0]));
			for (int j = 0; j < SS; j++) {
				log_rc(s, "gen", cp_cmlhs_gen(cx[s->sid][j], hs[s->sid][j], LL, prf[s->sid][j], RLC_MD_LEN, s->b[j], H[6 + j], s->b[2 + j], H[8 + j], bls));
			}
			return 1;
		case 1:
			for (int j = 0; j < SS; j++) {
				for (int l = 0; l < LL; l++) {
					bn_rand_mod(s->b[4 + 2 * j + l], ord);
					log_rc(s, "sig", cp_cmlhs_sig(G[1 + j], H[j], G[3 + 2 * j + l], G[7 + 2 * j + l], G[11 + 2 * j + l], H[2 + 2 * j + l],
							s->b[4 + 2 * j + l], data, l, cx[s->sid][j][l], G[0], prf[s->sid][j], RLC_MD_LEN, s->b[2 + j], s->b[j], bls));
					/* (the definition takes d before sk; the prototype in relic_cp.h names them the other way round) */
				}
			}
			return 1;
		case 2: {
			/* evaluator */
			g1_t t1;
			g2_t t2;
			g1_null(t1); g2_null(t2); g1_new(t1); g2_new(t2);
			for (int j = 0; j < SS; j++) {
				log_rc(s, "fun", cp_cmlhs_fun(G[15 + j], G[17 + j], (const g1_t *)(G + 3 + 2 * j), (const g1_t *)(G + 7 + 2 * j), f[j], LL));
			}
			log_rc(s, "evl", cp_cmlhs_evl(G[19], H[10], (const g1_t *)(G + 11), (const g2_t *)(H + 2), f[0], LL));
			log_rc(s, "evl", cp_cmlhs_evl(t1, t2, (const g1_t *)(G + 13), (const g2_t *)(H + 4), f[1], LL));
			g1_add(G[19], G[19], t1); g1_norm(G[19], G[19]);
			g2_add(H[10], H[10], t2); g2_norm(H[10], H[10]);
			bn_zero(s->b[8]);
			for (int j = 0; j < SS; j++) {
				for (int l = 0; l < LL; l++) {
					bn_mul_dig(s->b[9], s->b[4 + 2 * j + l], f[j][l]);
					bn_add(s->b[8], s->b[8], s->b[9]);
					bn_mod(s->b[8], s->b[8], ord);
				}
			}
			g1_free(t1); g2_free(t2);
			return 1;
		}
		case 3: {
			int ok = 1;
			ok &= xmit_g1(s, "r", G[20], G[19], (int)s->opt[1]);
			ok &= xmit_g2(s, "s", H[11], H[10], (int)s->opt[1]);
			/* per-signer tag signatures sig[j] (in place; in the ECDSA variant they carry (r, s) in their
			 * coordinates, so they travel as raw coordinate pairs) and the signers' z[j] */
			for (int j = 0; j < 2; j++) {
				g2_t tz;
				g2_null(tz); g2_new(tz);
				g2_copy(tz, H[j]);
				ok &= xmit_g2(s, j ? "z1" : "z0", H[j], tz, (int)s->opt[1]);
				g2_free(tz);
				if (bls) {
					g1_t ts;
					g1_null(ts); g1_new(ts);
					g1_copy(ts, G[1 + j]);
					ok &= xmit_g1(s, j ? "sig1" : "sig0", G[1 + j], ts, (int)s->opt[1]);
					g1_free(ts);
				} else {
					fp_prime_back(s->b[16], G[1 + j]->x);
					fp_prime_back(s->b[17], G[1 + j]->y);
					ok &= xmit_bn(s, j ? "sr1" : "sr0", s->b[18], s->b[16], 0);
					ok &= xmit_bn(s, j ? "ss1" : "ss0", s->b[19], s->b[17], 0);
					if (bn_bits(s->b[18]) <= RLC_FP_BITS && bn_bits(s->b[19]) <= RLC_FP_BITS && bn_sign(s->b[18]) == RLC_POS && bn_sign(s->b[19]) == RLC_POS) {
						bn_t pp;
						bn_null(pp); bn_new(pp);
						pp->used = RLC_FP_DIGS; dv_copy(pp->dp, fp_prime_get(), RLC_FP_DIGS); bn_trim(pp);
						bn_mod(s->b[18], s->b[18], pp); bn_mod(s->b[19], s->b[19], pp);
						fp_prime_conv(G[1 + j]->x, s->b[18]);
						fp_prime_conv(G[1 + j]->y, s->b[19]);
						bn_free(pp);
					} else ok = 0;
				}
			}
			ok &= xmit_g1(s, "as0", G[21], G[15], (int)s->opt[1]);
			ok &= xmit_g1(s, "as1", G[22], G[16], (int)s->opt[1]);
			if (bls) {
				ok &= xmit_g2(s, "pk0", H[12], H[6], (int)s->opt[1]);
				ok &= xmit_g2(s, "pk1", H[13], H[7], (int)s->opt[1]);
			} else {
				/* the ECDSA keys are prime-curve points kept in g2_t objects (g2_set_g1 / g1_set_g2) */
				for (int j = 0; j < 2; j++) {
					g1_set_g2(s->g1[j], H[6 + j]);
					fp_set_dig(s->g1[j]->z, 1);
					s->g1[j]->coord = BASIC;
					ok &= xmit_g1(s, j ? "pk1" : "pk0", s->g1[2 + j], s->g1[j], (int)s->opt[1]);
					fp2_zero(H[12 + j]->x); fp2_zero(H[12 + j]->y); fp2_zero(H[12 + j]->z);
					g2_set_g1(H[12 + j], s->g1[2 + j]);
				}
			}
			ok &= xmit_g2(s, "y0", H[14], H[8], (int)s->opt[1]);
			ok &= xmit_g2(s, "y1", H[15], H[9], (int)s->opt[1]);
			ok &= xmit_bn(s, "m", s->b[12], s->b[8], 0);
			s->flag[0] = ok;
			return 1;
		}
		case 4:
			if (s->flag[0]) {
				int label[LL] = { 0, 1 };
				const gt_t *hp[SS] = { hs[s->sid][0], hs[s->sid][1] };
				const dig_t *fp[SS] = { f[0], f[1] };
				size_t flen[SS] = { LL, LL };
				gt_t vk;
				gt_null(vk); gt_new(vk);
				int v1 = cp_cmlhs_ver(G[20], H[11], (const g1_t *)(G + 1), (const g2_t *)H, (const g1_t *)(G + 21), (const g1_t *)(G + 17),
						s->b[12], data, G[0], label, hp, fp, flen, (const g2_t *)(H + 14), (const g2_t *)(H + 12), SS, bls) == 1;
				log_ver(s, "ver", v1);
				cp_cmlhs_off(vk, G[0], label, hp, fp, flen, SS);
				int v2 = cp_cmlhs_onv(G[20], H[11], (const g1_t *)(G + 1), (const g2_t *)H, (const g1_t *)(G + 21), (const g1_t *)(G + 17),
						s->b[12], data, G[0], vk, (const g2_t *)(H + 14), (const g2_t *)(H + 12), SS, bls) == 1;
				log_ver(s, "onv", v2);
				gt_free(vk);
			} else tr_printf("VER %d ver decode-failed\n", s->sid);
			return 0;
	}
	return 0;
}

/* ---- two-party Pointcheval-Sanders (both halves inside one call): MPC verifier vs plain verifier on recombined values ---- */
static int sch_mpss(sess_t *s) {
	b3_init();
	mt_t (*tri)[2] = mt3[s->sid];
	pt_t *pt = pc_tri[s->sid];
	g1_t *A = mg1[s->sid];
	g2_t *X = mg2[s->sid];
	gt_t *E = mgt[s->sid];
	/* u[2] b[0..1], v[2] b[2..3], m[2] b[4..5]; h X[0], x[2] X[1..2], y[2] X[3..4]; a A[0], b[2] A[1..2] */
	switch (s->phase) {
		case 0:
			pc_map_tri(pt);
			for (int i = 0; i < 3; i++) { mpc_mt_gen(tri[i], ord); }
			gt_exp_gen(E[0], tri[2][0]->b); gt_exp_gen(E[1], tri[2][1]->b);
			gt_exp_gen(E[2], tri[2][0]->c); gt_exp_gen(E[3], tri[2][1]->c);
			tri[2][0]->bt = &E[0]; tri[2][1]->bt = &E[1];
			tri[2][0]->ct = &E[2]; tri[2][1]->ct = &E[3];
			log_rc(s, "gen", cp_mpss_gen(s->b, s->b + 2, X[0], X + 1, X + 3));
			log_rc(s, "bct", cp_mpss_bct(X + 1, X + 3));
			return 1;
		case 1:
			bn_rand_mod(s->b[4], ord); bn_rand_mod(s->b[5], ord);
			log_rc(s, "sig", cp_mpss_sig(A[0], A + 1, (const bn_t *)(s->b + 4), (const bn_t *)s->b, (const bn_t *)(s->b + 2), tri[0], tri[1]));
			return 1;
		case 2: {
			int ok = 1;
			ok &= xmit_g1(s, "a", A[4], A[0], (int)s->opt[1]);
			ok &= xmit_g1(s, "b0", A[5], A[1], (int)s->opt[1]);
			ok &= xmit_g1(s, "b1", A[6], A[2], (int)s->opt[1]);
			ok &= xmit_bn(s, "m0", s->b[12], s->b[4], 0);
			ok &= xmit_bn(s, "m1", s->b[13], s->b[5], 0);
			s->flag[0] = ok;
			return 1;
		}
		case 3:
			if (s->flag[0]) {
				cp_mpss_ver(E[4], A[4], (const g1_t *)(A + 5), (const bn_t *)(s->b + 12), X[0], X[1], X[3], tri[2], pt);
				log_ver(s, "ver", gt_is_unity(E[4]) == 1);
				/* the plain verifier on the recombined values must agree */
				bn_add(s->b[14], s->b[12], s->b[13]); bn_mod(s->b[14], s->b[14], ord);
				g1_add(A[7], A[5], A[6]); g1_norm(A[7], A[7]);
				log_ver(s, "plain", cp_pss_ver(A[4], A[7], s->b[14], X[0], X[1], X[3]) == 1);
			} else tr_printf("VER %d ver decode-failed\n", s->sid);
			return 0;
	}
	return 0;
}

/* ---- two-party Pointcheval-Sanders block signature: opt k = number of blocks 1..3 ---- */
static int sch_mpsb(sess_t *s) {
	b3_init();
	static bn_t bm[NSESS][3][2], bv[NSESS][3][2], rm[NSESS][3][2], cm[NSESS][3];
	static g2_t by_[NSESS][3][2], ys[NSESS][3];
	static int ready = 0;
	if (!ready) {
		for (int a = 0; a < NSESS; a++) {
			for (int j = 0; j < 3; j++) {
				bn_null(cm[a][j]); bn_new(cm[a][j]); g2_null(ys[a][j]); g2_new(ys[a][j]);
				for (int i = 0; i < 2; i++) {
					bn_null(bm[a][j][i]); bn_new(bm[a][j][i]); bn_null(bv[a][j][i]); bn_new(bv[a][j][i]);
					bn_null(rm[a][j][i]); bn_new(rm[a][j][i]); g2_null(by_[a][j][i]); g2_new(by_[a][j][i]);
				}
			}
		}
		ready = 1;
	}
	size_t l = 1 + (size_t)(s->opt[4] % 3);
	mt_t (*tri)[2] = mt3[s->sid];
	pt_t *pt = pc_tri[s->sid];
	g1_t *A = mg1[s->sid];
	g2_t *X = mg2[s->sid];
	gt_t *E = mgt[s->sid];
	char name[8];
	/* r[2] b[0..1]; h X[0], x[2] X[1..2]; a A[0], b[2] A[1..2] */
	switch (s->phase) {
		case 0:
			for (int j = 0; j < 3; j++) { for (int i = 0; i < 2; i++) { bn_zero(bm[s->sid][j][i]); bn_zero(bv[s->sid][j][i]); bn_zero(rm[s->sid][j][i]); g2_set_infty(by_[s->sid][j][i]); } }
			pc_map_tri(pt);
			for (int i = 0; i < 3; i++) { mpc_mt_gen(tri[i], ord); }
			gt_exp_gen(E[0], tri[2][0]->b); gt_exp_gen(E[1], tri[2][1]->b);
			gt_exp_gen(E[2], tri[2][0]->c); gt_exp_gen(E[3], tri[2][1]->c);
			tri[2][0]->bt = &E[0]; tri[2][1]->bt = &E[1];
			tri[2][0]->ct = &E[2]; tri[2][1]->ct = &E[3];
			log_rc(s, "gen", cp_mpsb_gen(s->b, bv[s->sid], X[0], X + 1, by_[s->sid], l));
			log_rc(s, "bct", cp_mpsb_bct(X + 1, by_[s->sid], l));
			return 1;
		case 1:
			for (size_t j = 0; j < l; j++) { bn_rand_mod(bm[s->sid][j][0], ord); bn_rand_mod(bm[s->sid][j][1], ord); }
			log_rc(s, "sig", cp_mpsb_sig(A[0], A + 1, (const bn_t (*)[2])bm[s->sid], (const bn_t *)s->b, (const bn_t (*)[2])bv[s->sid], tri[0], tri[1], l));
			return 1;
		case 2: {
			int ok = 1;
			ok &= xmit_g1(s, "a", A[4], A[0], (int)s->opt[1]);
			ok &= xmit_g1(s, "b0", A[5], A[1], (int)s->opt[1]);
			ok &= xmit_g1(s, "b1", A[6], A[2], (int)s->opt[1]);
			for (size_t j = 0; j < l; j++) {
				snprintf(name, sizeof(name), "m%zu0", j); ok &= xmit_bn(s, name, rm[s->sid][j][0], bm[s->sid][j][0], 0);
				snprintf(name, sizeof(name), "m%zu1", j); ok &= xmit_bn(s, name, rm[s->sid][j][1], bm[s->sid][j][1], 0);
			}
			s->flag[0] = ok;
			return 1;
		}
		case 3:
			if (s->flag[0]) {
				cp_mpsb_ver(E[4], A[4], (const g1_t *)(A + 5), (const bn_t (*)[2])rm[s->sid], X[0], X[1], (const g2_t (*)[2])by_[s->sid],
						(s->opt[6] & 1) ? (const bn_t (*)[2])bv[s->sid] : NULL, tri[2], pt, l);
				log_ver(s, "ver", gt_is_unity(E[4]) == 1);
				/* the plain block verifier on the recombined values must agree */
				for (size_t j = 0; j < l; j++) {
					bn_add(cm[s->sid][j], rm[s->sid][j][0], rm[s->sid][j][1]); bn_mod(cm[s->sid][j], cm[s->sid][j], ord);
					g2_copy(ys[s->sid][j], by_[s->sid][j][0]);
				}
				g1_add(A[7], A[5], A[6]); g1_norm(A[7], A[7]);
				log_ver(s, "plain", cp_psb_ver(A[4], A[7], (const bn_t *)cm[s->sid], X[0], X[1], (const g2_t *)ys[s->sid], l) == 1);
			} else tr_printf("VER %d ver decode-failed\n", s->sid);
			return 0;
	}
	return 0;
}

/* ---- subgroup Paillier: both encryptors ---- */
static int sch_shpe(sess_t *s) {
	b3_init();
	switch (s->phase) {
		case 0: { int rc = cp_shpe_gen(sh_pub[s->sid], sh_prv[s->sid], 128, 512); log_rc(s, "gen", rc); return rc == RLC_OK; }
		case 1:
			bn_rand(s->b[0], RLC_POS, 100);
			if (s->opt[5] == 1) bn_zero(s->b[0]);
			if (s->opt[5] == 2) { bn_set_2b(s->b[0], 120); bn_sub_dig(s->b[0], s->b[0], 1); }
			log_out_bn(s, "pt", s->b[0]);
			log_rc(s, "enc", (s->opt[6] & 1) ? cp_shpe_enc_prv(s->b[1], s->b[0], sh_prv[s->sid]) : cp_shpe_enc(s->b[1], s->b[0], sh_pub[s->sid]));
			return 1;
		case 2: s->flag[0] = xmit_bn(s, "ct", s->b[12], s->b[1], 0); return 1;
		case 3:
			if (s->flag[0]) {
				int rc;
				if (s->opt[2]) { bn_copy(s->b[2], s->b[12]); rc = cp_shpe_dec(s->b[2], s->b[2], sh_prv[s->sid]); }
				else rc = cp_shpe_dec(s->b[2], s->b[12], sh_prv[s->sid]);
				log_rc(s, "dec", rc);
				if (rc == RLC_OK && err_get_code() == RLC_OK) log_out_bn(s, "dec", s->b[2]);
			}
			return 0;
	}
	return 0;
}

/* ---- MPC scalar multiplication in G1 and MPC pairing from a pairing triple: two parties, explicit broadcast ---- */
static int sch_mpcg1(sess_t *s) {
	b3_init();
	mt_t *tri = mt3[s->sid][0];
	g1_t *A = mg1[s->sid];
	/* k shares b[0..1]; p shares A[0..1]; expected A[2]; b1/c1 A[3..6]; public l b[2..3], d A[7]/A... */
	static g1_t D[NSESS][4];
	static int ready = 0;
	if (!ready) { for (int a = 0; a < NSESS; a++) { for (int j = 0; j < 4; j++) { g1_null(D[a][j]); g1_new(D[a][j]); } } ready = 1; }
	g1_t *d = D[s->sid];
	switch (s->phase) {
		case 0:
			mpc_mt_gen(tri, ord);
			g1_rand(A[0]); bn_rand_mod(s->b[0], ord);
			g1_mul(A[2], A[0], s->b[0]);
			g1_rand(A[1]); g1_sub(A[0], A[0], A[1]); g1_norm(A[0], A[0]);
			bn_rand_mod(s->b[1], ord);
			bn_sub(s->b[0], s->b[0], s->b[1]);
			if (bn_sign(s->b[0]) == RLC_NEG) bn_add(s->b[0], s->b[0], ord);
			bn_mod(s->b[0], s->b[0], ord);
			g1_mul_gen(A[3], tri[0]->b); g1_mul_gen(A[4], tri[1]->b);
			g1_mul_gen(A[5], tri[0]->c); g1_mul_gen(A[6], tri[1]->c);
			tri[0]->b1 = &A[3]; tri[1]->b1 = &A[4]; tri[0]->c1 = &A[5]; tri[1]->c1 = &A[6];
			return 1;
		case 1: g1_mul_lcl(s->b[2], d[0], s->b[0], A[0], tri[0]); return 1;
		case 2: g1_mul_lcl(s->b[3], d[1], s->b[1], A[1], tri[1]); return 1;
		case 3: {
			/* each party receives the other's public values: party 0's view (b[4], b[5]), (d[2]...) */
			int ok = 1;
			bn_copy(s->b[4], s->b[2]);
			ok &= xmit_bn(s, "l1", s->b[5], s->b[3], 0);
			g1_copy(A[7], d[0]);
			ok &= xmit_g1(s, "d1", d[3], d[1], (int)s->opt[1]);
			s->flag[0] = ok;
			return 1;
		}
		case 4:
			if (s->flag[0]) {
				/* party 0 finishes with what it received; party 1 (honest view) with the true values */
				g1_t q[2];
				bn_t l[2];
				for (int i = 0; i < 2; i++) { g1_null(q[i]); g1_new(q[i]); bn_null(l[i]); bn_new(l[i]); }
				bn_copy(l[0], s->b[4]); bn_copy(l[1], s->b[5]);
				g1_copy(q[0], A[7]); g1_copy(q[1], d[3]);
				g1_mul_bct(l, q);
				g1_mul_mpc(q[0], l[0], q[0], tri[0], 0);
				bn_copy(l[0], s->b[2]); bn_copy(l[1], s->b[3]);
				g1_copy(d[2], d[0]); g1_copy(q[1], d[1]);
				{
					g1_t qq[2];
					g1_null(qq[0]); g1_null(qq[1]); g1_new(qq[0]); g1_new(qq[1]);
					g1_copy(qq[0], d[0]); g1_copy(qq[1], d[1]);
					g1_mul_bct(l, qq);
					g1_mul_mpc(q[1], l[1], qq[1], tri[1], 1);
					g1_free(qq[0]); g1_free(qq[1]);
				}
				g1_add(q[0], q[0], q[1]); g1_norm(q[0], q[0]);
				tr_printf("OUT %d match v=%02x\n", s->sid, g1_cmp(q[0], A[2]) == RLC_EQ);
				for (int i = 0; i < 2; i++) { g1_free(q[i]); bn_free(l[i]); }
			}
			return 0;
	}
	return 0;
}

/* the G2 and GT forms of the two-party multiplication: same flow as mpcg1 */
static int sch_mpcg2(sess_t *s) {
	b3_init();
	mt_t *tri = mt3[s->sid][0];
	g2_t *A = mg2[s->sid];
	static g2_t D[NSESS][4];
	static int ready = 0;
	if (!ready) { for (int a = 0; a < NSESS; a++) { for (int j = 0; j < 4; j++) { g2_null(D[a][j]); g2_new(D[a][j]); } } ready = 1; }
	g2_t *d = D[s->sid];
	switch (s->phase) {
		case 0:
			mpc_mt_gen(tri, ord);
			g2_rand(A[0]); bn_rand_mod(s->b[0], ord);
			g2_mul(A[2], A[0], s->b[0]);
			g2_rand(A[1]); g2_sub(A[0], A[0], A[1]); g2_norm(A[0], A[0]);
			bn_rand_mod(s->b[1], ord);
			bn_sub(s->b[0], s->b[0], s->b[1]);
			if (bn_sign(s->b[0]) == RLC_NEG) bn_add(s->b[0], s->b[0], ord);
			bn_mod(s->b[0], s->b[0], ord);
			g2_mul_gen(A[3], tri[0]->b); g2_mul_gen(A[4], tri[1]->b);
			g2_mul_gen(A[5], tri[0]->c); g2_mul_gen(A[6], tri[1]->c);
			tri[0]->b2 = &A[3]; tri[1]->b2 = &A[4]; tri[0]->c2 = &A[5]; tri[1]->c2 = &A[6];
			return 1;
		case 1: g2_mul_lcl(s->b[2], d[0], s->b[0], A[0], tri[0]); return 1;
		case 2: g2_mul_lcl(s->b[3], d[1], s->b[1], A[1], tri[1]); return 1;
		case 3: {
			int ok = 1;
			bn_copy(s->b[4], s->b[2]);
			ok &= xmit_bn(s, "l1", s->b[5], s->b[3], 0);
			g2_copy(A[7], d[0]);
			ok &= xmit_g2(s, "d1", d[3], d[1], (int)s->opt[1]);
			s->flag[0] = ok;
			return 1;
		}
		case 4:
			if (s->flag[0]) {
				g2_t q[2], qq[2];
				bn_t l[2];
				for (int i = 0; i < 2; i++) { g2_null(q[i]); g2_new(q[i]); g2_null(qq[i]); g2_new(qq[i]); bn_null(l[i]); bn_new(l[i]); }
				bn_copy(l[0], s->b[4]); bn_copy(l[1], s->b[5]);
				g2_copy(q[0], A[7]); g2_copy(q[1], d[3]);
				g2_mul_bct(l, q);
				g2_mul_mpc(q[0], l[0], q[0], tri[0], 0);
				bn_copy(l[0], s->b[2]); bn_copy(l[1], s->b[3]);
				g2_copy(qq[0], d[0]); g2_copy(qq[1], d[1]);
				g2_mul_bct(l, qq);
				g2_mul_mpc(q[1], l[1], qq[1], tri[1], 1);
				g2_add(q[0], q[0], q[1]); g2_norm(q[0], q[0]);
				tr_printf("OUT %d match v=%02x\n", s->sid, g2_cmp(q[0], A[2]) == RLC_EQ);
				for (int i = 0; i < 2; i++) { g2_free(q[i]); g2_free(qq[i]); bn_free(l[i]); }
			}
			return 0;
	}
	return 0;
}

static int sch_mpcgt(sess_t *s) {
	b3_init();
	mt_t *tri = mt3[s->sid][0];
	gt_t *A = mgt[s->sid];
	static gt_t D[NSESS][4];
	static int ready = 0;
	if (!ready) { for (int a = 0; a < NSESS; a++) { for (int j = 0; j < 4; j++) { gt_null(D[a][j]); gt_new(D[a][j]); } } ready = 1; }
	gt_t *d = D[s->sid];
	switch (s->phase) {
		case 0:
			mpc_mt_gen(tri, ord);
			gt_rand(A[0]); bn_rand_mod(s->b[0], ord);
			gt_exp(A[2], A[0], s->b[0]);
			gt_rand(A[1]); gt_inv(A[7], A[1]); gt_mul(A[0], A[0], A[7]);
			bn_rand_mod(s->b[1], ord);
			bn_sub(s->b[0], s->b[0], s->b[1]);
			if (bn_sign(s->b[0]) == RLC_NEG) bn_add(s->b[0], s->b[0], ord);
			bn_mod(s->b[0], s->b[0], ord);
			gt_exp_gen(A[3], tri[0]->b); gt_exp_gen(A[4], tri[1]->b);
			gt_exp_gen(A[5], tri[0]->c); gt_exp_gen(A[6], tri[1]->c);
			tri[0]->bt = &A[3]; tri[1]->bt = &A[4]; tri[0]->ct = &A[5]; tri[1]->ct = &A[6];
			return 1;
		case 1: gt_exp_lcl(s->b[2], d[0], s->b[0], A[0], tri[0]); return 1;
		case 2: gt_exp_lcl(s->b[3], d[1], s->b[1], A[1], tri[1]); return 1;
		case 3: {
			int ok = 1;
			bn_copy(s->b[4], s->b[2]);
			ok &= xmit_bn(s, "l1", s->b[5], s->b[3], 0);
			gt_copy(A[7], d[0]);
			ok &= xmit_gt(s, "d1", d[3], d[1], 0);
			s->flag[0] = ok;
			return 1;
		}
		case 4:
			if (s->flag[0]) {
				gt_t q[2], qq[2];
				bn_t l[2];
				for (int i = 0; i < 2; i++) { gt_null(q[i]); gt_new(q[i]); gt_null(qq[i]); gt_new(qq[i]); bn_null(l[i]); bn_new(l[i]); }
				bn_copy(l[0], s->b[4]); bn_copy(l[1], s->b[5]);
				gt_copy(q[0], A[7]); gt_copy(q[1], d[3]);
				gt_exp_bct(l, q);
				gt_exp_mpc(q[0], l[0], q[0], tri[0], 0);
				bn_copy(l[0], s->b[2]); bn_copy(l[1], s->b[3]);
				gt_copy(qq[0], d[0]); gt_copy(qq[1], d[1]);
				gt_exp_bct(l, qq);
				gt_exp_mpc(q[1], l[1], qq[1], tri[1], 1);
				gt_mul(q[0], q[0], q[1]);
				tr_printf("OUT %d match v=%02x\n", s->sid, gt_cmp(q[0], A[2]) == RLC_EQ);
				for (int i = 0; i < 2; i++) { gt_free(q[i]); gt_free(qq[i]); bn_free(l[i]); }
			}
			return 0;
	}
	return 0;
}

static int sch_mpcpc(sess_t *s) {
	b3_init();
	pt_t *t = pc_tri[s->sid];
	g1_t *P = mg1[s->sid];
	g2_t *Q = mg2[s->sid];
	gt_t *E = mgt[s->sid];
	switch (s->phase) {
		case 0:
			pc_map_tri(t);
			g1_rand(P[0]); g2_rand(Q[0]);
			pc_map(E[0], P[0], Q[0]);
			g1_rand(P[1]); g1_sub(P[0], P[0], P[1]); g1_norm(P[0], P[0]);
			g2_rand(Q[1]); g2_sub(Q[0], Q[0], Q[1]); g2_norm(Q[0], Q[0]);
			return 1;
		case 1: pc_map_lcl(P[2], Q[2], P[0], Q[0], t[0]); return 1;
		case 2: pc_map_lcl(P[3], Q[3], P[1], Q[1], t[1]); return 1;
		case 3: {
			int ok = 1;
			/* party 0 receives party 1's (d, e) over the wire */
			ok &= xmit_g1(s, "d1", P[5], P[3], (int)s->opt[1]);
			ok &= xmit_g2(s, "e1", Q[5], Q[3], (int)s->opt[1]);
			s->flag[0] = ok;
			return 1;
		}
		case 4:
			if (s->flag[0]) {
				g1_t d[2];
				g2_t e[2];
				for (int i = 0; i < 2; i++) { g1_null(d[i]); g1_new(d[i]); g2_null(e[i]); g2_new(e[i]); }
				g1_copy(d[0], P[2]); g1_copy(d[1], P[5]); g2_copy(e[0], Q[2]); g2_copy(e[1], Q[5]);
				pc_map_bct(d, e);
				pc_map_mpc(E[1], d[0], e[0], t[0], 0);
				g1_copy(d[0], P[2]); g1_copy(d[1], P[3]); g2_copy(e[0], Q[2]); g2_copy(e[1], Q[3]);
				pc_map_bct(d, e);
				pc_map_mpc(E[2], d[1], e[1], t[1], 1);
				gt_mul(E[3], E[1], E[2]);
				tr_printf("OUT %d match v=%02x\n", s->sid, gt_cmp(E[3], E[0]) == RLC_EQ);
				for (int i = 0; i < 2; i++) { g1_free(d[i]); g2_free(e[i]); }
			}
			return 0;
	}
	return 0;
}

#define EXTRA_SCHEMES \
	{ "bbs", sch_bbs, 1, 0, 0 }, { "zss", sch_zss, 1, 0, 0 }, { "cls", sch_cls, 1, 0, 0 }, { "cli", sch_cli, 1, 0, 0 }, \
	{ "clb", sch_clb, 1, 0, 0 }, { "pss", sch_pss, 1, 0, 0 }, { "psb", sch_psb, 1, 0, 0 }, { "vbnn", sch_vbnn, 0, 0, 0 }, \
	{ "pokdl", sch_pokdl, 0, 0, 0 }, { "sokdl", sch_pokdl, 0, 0, 0 }, { "pokor", sch_pokor, 0, 0, 0 }, { "sokor", sch_pokor, 0, 0, 0 }, \
	{ "ers", sch_ers, 0, 0, 0 }, { "mklhs", sch_mklhs, 1, 0, 0 }, \
	{ "ghpe", sch_ghpe, 0, 0, 0 }, { "bdpe", sch_bdpe, 0, 0, 0 }, { "rabin", sch_rabin, 0, 0, 0 }, { "ibe", sch_ibe, 1, 0, 0 }, \
	{ "bgn", sch_bgn, 1, 0, 0 }, { "sokaka", sch_sokaka, 1, 0, 0 }, { "mt", sch_mt, 0, 0, 0 }, { "pdpub", sch_pdpub, 1, 0, 0 }, \
	{ "lvpub", sch_pdpub, 1, 0, 0 }, { "pdprv", sch_pdprv, 1, 0, 0 }, { "lvprv", sch_pdprv, 1, 0, 0 }, { "pbpsi", sch_pbpsi, 1, 0, 0 }, \
	{ "ped", sch_ped, 0, 0, 0 }, { "rsapsi", sch_rsapsi, 0, 0, 0 }, { "shipsi", sch_rsapsi, 0, 0, 0 }, \
	{ "etrs", sch_etrs, 0, 0, 0 }, { "smlers", sch_smlers, 0, 0, 0 }, { "cmlhs", sch_cmlhs, 1, 0, 0 }, { "mpss", sch_mpss, 1, 0, 0 }, { "mpsb", sch_mpsb, 1, 0, 0 }, \
	{ "shpe", sch_shpe, 0, 0, 0 }, { "mpcg1", sch_mpcg1, 1, 0, 0 }, { "mpcpc", sch_mpcpc, 1, 0, 0 }, { "mpcg2", sch_mpcg2, 1, 0, 0 }, { "mpcgt", sch_mpcgt, 1, 0, 0 },
