/* Further protosim schemes (included by protosim.c). */

static void extra_boot(void) {}

/* Re-randomisation by the adversary on the wire: a legal malleation of CL / PS signatures. */
static int want_rerand(sess_t *s) {
	fault_t *f = find_fault(s, "sig");
	return f && !strcmp(f->kind, "v_rerand");
}

/* ---- Boneh-Boyen: pk q in G2, z in GT, signature in G1 ---- */
static int sch_bbs(sess_t *s) {
	switch (s->phase) {
		case 0: log_rc(s, "gen", cp_bbs_gen(s->b[0], s->g2[0], s->gt[0])); return 1;
		case 1: log_rc(s, "sig", cp_bbs_sig(s->g1[0], s->msg, s->msg_len, (int)s->opt[0], s->b[0])); return 1;
		case 2: {
			int ok = 1;
			ok &= xmit_g2(s, "pk", s->g2[5], s->g2[0], (int)s->opt[1]);
			ok &= xmit_gt(s, "z", s->gt[5], s->gt[0], 0);
			ok &= xmit_g1(s, "sig", s->g1[5], s->g1[0], (int)s->opt[1]);
			s->blen[0] = xmit_bytes(s, "msg", s->buf[0], s->msg, s->msg_len);
			s->flag[0] = ok;
			return 1;
		}
		case 3:
			if (s->flag[0]) log_ver(s, "ver", cp_bbs_ver(s->g1[5], s->buf[0], s->blen[0], (int)s->opt[0], s->g2[5], s->gt[5]) == 1);
			else tr_printf("VER %d ver decode-failed\n", s->sid);
			return 0;
	}
	return 0;
}

/* ---- ZSS: pk q in G1, signature in G2 ---- */
static int sch_zss(sess_t *s) {
	switch (s->phase) {
		case 0: log_rc(s, "gen", cp_zss_gen(s->b[0], s->g1[0], s->gt[0])); return 1;
		case 1: log_rc(s, "sig", cp_zss_sig(s->g2[0], s->msg, s->msg_len, (int)s->opt[0], s->b[0])); return 1;
		case 2: {
			int ok = 1;
			ok &= xmit_g1(s, "pk", s->g1[5], s->g1[0], (int)s->opt[1]);
			ok &= xmit_gt(s, "z", s->gt[5], s->gt[0], 0);
			ok &= xmit_g2(s, "sig", s->g2[5], s->g2[0], (int)s->opt[1]);
			s->blen[0] = xmit_bytes(s, "msg", s->buf[0], s->msg, s->msg_len);
			s->flag[0] = ok;
			return 1;
		}
		case 3:
			if (s->flag[0]) log_ver(s, "ver", cp_zss_ver(s->g2[5], s->buf[0], s->blen[0], (int)s->opt[0], s->g1[5], s->gt[5]) == 1);
			else tr_printf("VER %d ver decode-failed\n", s->sid);
			return 0;
	}
	return 0;
}

/* ---- Camenisch-Lysyanskaya A ---- */
static int sch_cls(sess_t *s) {
	switch (s->phase) {
		case 0: log_rc(s, "gen", cp_cls_gen(s->b[0], s->b[1], s->g2[0], s->g2[1])); return 1;
		case 1: log_rc(s, "sig", cp_cls_sig(s->g1[0], s->g1[1], s->g1[2], s->msg, s->msg_len, s->b[0], s->b[1])); return 1;
		case 2: {
			int ok = 1;
			if (want_rerand(s)) {
				bn_rand_mod(s->b[5], ord);
				for (int i = 0; i < 3; i++) { g1_mul(s->g1[i], s->g1[i], s->b[5]); }
				tr_printf("NOTE %d rerandomised\n", s->sid);
			}
			ok &= xmit_g2(s, "x", s->g2[5], s->g2[0], (int)s->opt[1]);
			ok &= xmit_g2(s, "y", s->g2[6], s->g2[1], (int)s->opt[1]);
			ok &= xmit_g1(s, "a", s->g1[5], s->g1[0], (int)s->opt[1]);
			ok &= xmit_g1(s, "b", s->g1[6], s->g1[1], (int)s->opt[1]);
			ok &= xmit_g1(s, "c", s->g1[7], s->g1[2], (int)s->opt[1]);
			s->blen[0] = xmit_bytes(s, "msg", s->buf[0], s->msg, s->msg_len);
			s->flag[0] = ok;
			return 1;
		}
		case 3:
			if (s->flag[0]) log_ver(s, "ver", cp_cls_ver(s->g1[5], s->g1[6], s->g1[7], s->buf[0], s->blen[0], s->g2[5], s->g2[6]) == 1);
			else tr_printf("VER %d ver decode-failed\n", s->sid);
			return 0;
	}
	return 0;
}

/* ---- Camenisch-Lysyanskaya B (committed message) ---- */
static int sch_cli(sess_t *s) {
	switch (s->phase) {
		case 0: log_rc(s, "gen", cp_cli_gen(s->b[0], s->b[1], s->b[2], s->g2[0], s->g2[1], s->g2[2])); return 1;
		case 1:
			bn_rand_mod(s->b[3], ord);
			log_rc(s, "sig", cp_cli_sig(s->g1[0], s->g1[1], s->g1[2], s->g1[3], s->g1[4], s->msg, s->msg_len, s->b[3],
					s->b[0], s->b[1], s->b[2]));
			return 1;
		case 2: {
			int ok = 1;
			ok &= xmit_g2(s, "x", s->g2[5], s->g2[0], (int)s->opt[1]);
			ok &= xmit_g2(s, "y", s->g2[6], s->g2[1], (int)s->opt[1]);
			ok &= xmit_g2(s, "z", s->g2[7], s->g2[2], (int)s->opt[1]);
			ok &= xmit_g1(s, "a", s->g1[5], s->g1[0], (int)s->opt[1]);
			ok &= xmit_g1(s, "A", s->g1[6], s->g1[1], (int)s->opt[1]);
			ok &= xmit_g1(s, "b", s->g1[7], s->g1[2], (int)s->opt[1]);
			ok &= xmit_g1(s, "B", s->g1[8], s->g1[3], (int)s->opt[1]);
			ok &= xmit_g1(s, "c", s->g1[9], s->g1[4], (int)s->opt[1]);
			ok &= xmit_bn(s, "r", s->b[12], s->b[3], 0);
			s->blen[0] = xmit_bytes(s, "msg", s->buf[0], s->msg, s->msg_len);
			s->flag[0] = ok;
			return 1;
		}
		case 3:
			if (s->flag[0]) log_ver(s, "ver", cp_cli_ver(s->g1[5], s->g1[6], s->g1[7], s->g1[8], s->g1[9], s->buf[0], s->blen[0],
						s->b[12], s->g2[5], s->g2[6], s->g2[7]) == 1);
			else tr_printf("VER %d ver decode-failed\n", s->sid);
			return 0;
	}
	return 0;
}

/* ---- Camenisch-Lysyanskaya C (block messages), l = opt[4] in 1..3 ---- */
static int sch_clb(sess_t *s) {
	size_t l = (size_t)s->opt[4];
	if (l < 1) l = 1;
	if (l > 3) l = 3;
	/* messages: the session message split in l blocks */
	const uint8_t *ms[3];
	size_t ls[3];
	size_t part = s->msg_len / l;
	char name[8];
	switch (s->phase) {
		case 0:
			/* t b[0], u b[1], v[] b[2..], x g2[0], y g2[1], z[] g2[2..] */
			log_rc(s, "gen", cp_clb_gen(s->b[0], s->b[1], s->b + 2, s->g2[0], s->g2[1], s->g2 + 2, l));
			return 1;
		case 1:
			for (size_t i = 0; i < l; i++) { ms[i] = s->msg + i * part; ls[i] = (i == l - 1) ? s->msg_len - i * part : part; }
			/* a g1[0], A[] g1[1..3], b g1[4], B[] g1[5..7], c g1[8] */
			log_rc(s, "sig", cp_clb_sig(s->g1[0], s->g1 + 1, s->g1[4], s->g1 + 5, s->g1[8], ms, ls, s->b[0], s->b[1], s->b + 2, l));
			return 1;
		case 2: {
			int ok = 1;
			/* the verifier's copies reuse the upper half of the arrays after the sender is done */
			g2_t *rx = s->g2 + 5;		/* x', y', z'[] at g2[5], g2[6], g2[7..9] */
			ok &= xmit_g2(s, "x", rx[0], s->g2[0], (int)s->opt[1]);
			ok &= xmit_g2(s, "y", rx[1], s->g2[1], (int)s->opt[1]);
			for (size_t i = 0; i + 1 < l; i++) {
				snprintf(name, sizeof(name), "z%zu", i);
				ok &= xmit_g2(s, name, rx[2 + i], s->g2[2 + i], (int)s->opt[1]);
			}
			/* signature components are delivered in place (sender objects are not needed any more) */
			const char *nm[9] = { "a", "A0", "A1", "A2", "b", "B0", "B1", "B2", "c" };
			for (int i = 0; i < 9; i++) {
				/* a scheme with l blocks has l - 1 auxiliary elements A_i, B_i, Z_i */
				if ((i >= 1 && i <= 3 && (size_t)i >= l) || (i >= 5 && i <= 7 && (size_t)(i - 4) >= l)) continue;
				g1_t t;
				g1_null(t); g1_new(t);
				g1_copy(t, s->g1[i]);
				ok &= xmit_g1(s, nm[i], s->g1[i], t, (int)s->opt[1]);
				g1_free(t);
			}
			s->blen[0] = xmit_bytes(s, "msg", s->buf[0], s->msg, s->msg_len);
			s->flag[0] = ok;
			return 1;
		}
		case 3:
			if (s->flag[0]) {
				size_t ml = s->blen[0];
				size_t p2 = ml / l;
				for (size_t i = 0; i < l; i++) { ms[i] = s->buf[0] + i * p2; ls[i] = (i == l - 1) ? ml - i * p2 : p2; }
				log_ver(s, "ver", cp_clb_ver(s->g1[0], (const g1_t *)(s->g1 + 1), s->g1[4], (const g1_t *)(s->g1 + 5), s->g1[8], ms, ls,
						s->g2[5], s->g2[6], (const g2_t *)(s->g2 + 7), l) == 1);
			} else tr_printf("VER %d ver decode-failed\n", s->sid);
			return 0;
	}
	return 0;
}

/* ---- Pointcheval-Sanders (single message in Z_r) ---- */
static int sch_pss(sess_t *s) {
	switch (s->phase) {
		case 0: log_rc(s, "gen", cp_pss_gen(s->b[0], s->b[1], s->g2[0], s->g2[1], s->g2[2])); return 1;
		case 1:
			bn_read_bin(s->b[2], s->msg, s->msg_len > 32 ? 32 : s->msg_len);
			bn_mod(s->b[2], s->b[2], ord);
			log_rc(s, "sig", cp_pss_sig(s->g1[0], s->g1[1], s->b[2], s->b[0], s->b[1]));
			return 1;
		case 2: {
			int ok = 1;
			if (want_rerand(s)) {
				bn_rand_mod(s->b[5], ord);
				for (int i = 0; i < 2; i++) { g1_mul(s->g1[i], s->g1[i], s->b[5]); }
				tr_printf("NOTE %d rerandomised\n", s->sid);
			}
			ok &= xmit_g2(s, "g", s->g2[5], s->g2[0], (int)s->opt[1]);
			ok &= xmit_g2(s, "x", s->g2[6], s->g2[1], (int)s->opt[1]);
			ok &= xmit_g2(s, "y", s->g2[7], s->g2[2], (int)s->opt[1]);
			ok &= xmit_g1(s, "a", s->g1[5], s->g1[0], (int)s->opt[1]);
			ok &= xmit_g1(s, "b", s->g1[6], s->g1[1], (int)s->opt[1]);
			ok &= xmit_bn(s, "m", s->b[12], s->b[2], 0);
			s->flag[0] = ok;
			return 1;
		}
		case 3:
			if (s->flag[0]) log_ver(s, "ver", cp_pss_ver(s->g1[5], s->g1[6], s->b[12], s->g2[5], s->g2[6], s->g2[7]) == 1);
			else tr_printf("VER %d ver decode-failed\n", s->sid);
			return 0;
	}
	return 0;
}

/* ---- Pointcheval-Sanders block, l = opt[4] in 1..3 ---- */
static int sch_psb(sess_t *s) {
	size_t l = (size_t)s->opt[4];
	char name[8];
	if (l < 1) l = 1;
	if (l > 3) l = 3;
	switch (s->phase) {
		case 0:
			/* r b[0], s[] b[1..3], g g2[0], x g2[1], y[] g2[2..4] */
			log_rc(s, "gen", cp_psb_gen(s->b[0], s->b + 1, s->g2[0], s->g2[1], s->g2 + 2, l));
			return 1;
		case 1:
			for (size_t i = 0; i < l; i++) { bn_rand_mod(s->b[6 + i], ord); }
			log_rc(s, "sig", cp_psb_sig(s->g1[0], s->g1[1], (const bn_t *)(s->b + 6), s->b[0], (const bn_t *)(s->b + 1), l));
			return 1;
		case 2: {
			int ok = 1;
			ok &= xmit_g2(s, "g", s->g2[5], s->g2[0], (int)s->opt[1]);
			ok &= xmit_g2(s, "x", s->g2[6], s->g2[1], (int)s->opt[1]);
			for (size_t i = 0; i < l; i++) {
				snprintf(name, sizeof(name), "y%zu", i);
				ok &= xmit_g2(s, name, s->g2[7 + i], s->g2[2 + i], (int)s->opt[1]);
				snprintf(name, sizeof(name), "m%zu", i);
				ok &= xmit_bn(s, name, s->b[12 + i], s->b[6 + i], 0);
			}
			ok &= xmit_g1(s, "a", s->g1[5], s->g1[0], (int)s->opt[1]);
			ok &= xmit_g1(s, "b", s->g1[6], s->g1[1], (int)s->opt[1]);
			s->flag[0] = ok;
			return 1;
		}
		case 3:
			if (s->flag[0]) log_ver(s, "ver", cp_psb_ver(s->g1[5], s->g1[6], (const bn_t *)(s->b + 12), s->g2[5], s->g2[6],
						(const g2_t *)(s->g2 + 7), l) == 1);
			else tr_printf("VER %d ver decode-failed\n", s->sid);
			return 0;
	}
	return 0;
}

/* ---- vBNN-IBS ---- */
static int sch_vbnn(sess_t *s) {
	static const uint8_t id[] = "alice@example";
	switch (s->phase) {
		case 0: log_rc(s, "gen", cp_vbnn_gen(s->b[0], s->e[0])); return 1;
		case 1: log_rc(s, "genprv", cp_vbnn_gen_prv(s->b[1], s->e[1], s->b[0], id, sizeof(id) - 1)); return 1;
		case 2: log_rc(s, "sig", cp_vbnn_sig(s->e[2], s->b[2], s->b[3], id, sizeof(id) - 1, s->msg, (int)s->msg_len, s->b[1], s->e[1])); return 1;
		case 3: {
			int ok = 1;
			ok &= xmit_ec(s, "mpk", s->e[5], s->e[0], (int)s->opt[1]);
			ok &= xmit_ec(s, "R", s->e[6], s->e[2], (int)s->opt[1]);
			ok &= xmit_bn(s, "z", s->b[12], s->b[2], 0);
			ok &= xmit_bn(s, "h", s->b[13], s->b[3], 0);
			s->blen[1] = xmit_bytes(s, "id", s->buf[1], id, sizeof(id) - 1);
			s->blen[0] = xmit_bytes(s, "msg", s->buf[0], s->msg, s->msg_len);
			s->flag[0] = ok;
			return 1;
		}
		case 4:
			if (s->flag[0]) log_ver(s, "ver", cp_vbnn_ver(s->e[6], s->b[12], s->b[13], s->buf[1], s->blen[1], s->buf[0], (int)s->blen[0], s->e[5]) == 1);
			else tr_printf("VER %d ver decode-failed\n", s->sid);
			return 0;
	}
	return 0;
}

/* ---- proofs / signatures of knowledge of a discrete logarithm: opt[0] = 1 adds a message (sok) ---- */
static int sch_pokdl(sess_t *s) {
	int sok = !strcmp(s->scheme, "sokdl");
	switch (s->phase) {
		case 0: bn_rand_mod(s->b[0], ord); ec_mul_gen(s->e[0], s->b[0]); return 1;
		case 1:
			if (sok) log_rc(s, "prv", cp_sokdl_sig(s->b[1], s->b[2], s->msg, s->msg_len, s->e[0], s->b[0]));
			else log_rc(s, "prv", cp_pokdl_prv(s->b[1], s->b[2], s->e[0], s->b[0]));
			return 1;
		case 2: {
			int ok = 1;
			ok &= xmit_ec(s, "y", s->e[5], s->e[0], (int)s->opt[1]);
			ok &= xmit_bn(s, "c", s->b[12], s->b[1], 0);
			ok &= xmit_bn(s, "r", s->b[13], s->b[2], 0);
			if (sok) s->blen[0] = xmit_bytes(s, "msg", s->buf[0], s->msg, s->msg_len);
			s->flag[0] = ok;
			return 1;
		}
		case 3:
			if (s->flag[0]) {
				if (sok) log_ver(s, "ver", cp_sokdl_ver(s->b[12], s->b[13], s->buf[0], s->blen[0], s->e[5]) == 1);
				else log_ver(s, "ver", cp_pokdl_ver(s->b[12], s->b[13], s->e[5]) == 1);
			} else tr_printf("VER %d ver decode-failed\n", s->sid);
			return 0;
	}
	return 0;
}

/* ---- OR-proofs: the prover knows the logarithm of y[opt[6] & 1] only ---- */
static int sch_pokor(sess_t *s) {
	int sok = !strcmp(s->scheme, "sokor");
	int first = (int)(s->opt[6] & 1);
	switch (s->phase) {
		case 0:
			bn_rand_mod(s->b[0], ord);
			if (sok && first) { ec_mul_gen(s->e[0], s->b[0]); ec_rand(s->e[1]); }
			else { ec_rand(s->e[0]); ec_mul_gen(s->e[1], s->b[0]); }
			return 1;
		case 1:
			/* c[] b[1..2], r[] b[3..4], y[] e[0..1] */
			if (sok) log_rc(s, "prv", cp_sokor_sig(s->b + 1, s->b + 3, s->msg, s->msg_len, (const ec_t *)s->e, NULL, s->b[0], first));
			else log_rc(s, "prv", cp_pokor_prv(s->b + 1, s->b + 3, (const ec_t *)s->e, s->b[0]));
			return 1;
		case 2: {
			int ok = 1;
			fault_t *f = find_fault(s, "stmt");
			int swap = f && !strcmp(f->kind, "v_swap");
			/* the adversary may swap the two statements of the disjunction */
			ok &= xmit_ec(s, "y0", s->e[5], s->e[swap ? 1 : 0], (int)s->opt[1]);
			ok &= xmit_ec(s, "y1", s->e[6], s->e[swap ? 0 : 1], (int)s->opt[1]);
			if (swap) tr_printf("NOTE %d statements-swapped\n", s->sid);
			ok &= xmit_bn(s, "c0", s->b[12], s->b[1], 0);
			ok &= xmit_bn(s, "c1", s->b[13], s->b[2], 0);
			ok &= xmit_bn(s, "r0", s->b[14], s->b[3], 0);
			ok &= xmit_bn(s, "r1", s->b[15], s->b[4], 0);
			if (sok) s->blen[0] = xmit_bytes(s, "msg", s->buf[0], s->msg, s->msg_len);
			s->flag[0] = ok;
			return 1;
		}
		case 3:
			if (s->flag[0]) {
				if (sok) log_ver(s, "ver", cp_sokor_ver((const bn_t *)(s->b + 12), (const bn_t *)(s->b + 14), s->buf[0], s->blen[0], (const ec_t *)(s->e + 5), NULL) == 1);
				else log_ver(s, "ver", cp_pokor_ver((const bn_t *)(s->b + 12), (const bn_t *)(s->b + 14), (const ec_t *)(s->e + 5)) == 1);
			} else tr_printf("VER %d ver decode-failed\n", s->sid);
			return 0;
	}
	return 0;
}

/* ---- extendable ring signatures: opt[4] = ring size after extension (1..3) ---- */
static ers_t ring_a[NSESS][3], ring_b[NSESS][3];
static int rings_ready = 0;
static void rings_init(void) {
	if (rings_ready) return;
	for (int i = 0; i < NSESS; i++) {
		for (int j = 0; j < 3; j++) {
			ers_null(ring_a[i][j]); ers_new(ring_a[i][j]);
			ers_null(ring_b[i][j]); ers_new(ring_b[i][j]);
		}
	}
	rings_ready = 1;
}

static int sch_ers(sess_t *s) {
	size_t want = (size_t)s->opt[4];
	char name[12];
	if (want < 1) want = 1;
	if (want > 3) want = 3;
	rings_init();
	ers_t *ra = ring_a[s->sid], *rb = ring_b[s->sid];
	switch (s->phase) {
		case 0:
			log_rc(s, "genpp", cp_ers_gen(s->e[0]));
			for (int i = 0; i < 3; i++) { log_rc(s, "genkey", cp_ers_gen_key(s->b[i], s->e[1 + i])); }
			return 1;
		case 1:
			log_rc(s, "sig", cp_ers_sig(s->b[4], ra[0], s->msg, s->msg_len, s->b[0], s->e[1], s->e[0]));
			s->blen[5] = 1;
			return 1;
		case 2: {
			/* members join in turn (a history of extensions) */
			size_t size = s->blen[5];
			while (size < want) {
				int rc = cp_ers_ext(s->b[4], (ers_t *)ra, &size, s->msg, s->msg_len, s->e[1 + size], s->e[0]);
				log_rc(s, "ext", rc);
				if (rc != RLC_OK) break;
			}
			s->blen[5] = size;
			return 1;
		}
		case 3: {
			int ok = 1;
			size_t size = s->blen[5];
			ok &= xmit_ec(s, "pp", s->e[5], s->e[0], (int)s->opt[1]);
			ok &= xmit_bn(s, "td", s->b[12], s->b[4], 0);
			for (size_t i = 0; i < size; i++) {
				snprintf(name, sizeof(name), "h%zu", i); ok &= xmit_ec(s, name, rb[i]->h, ra[i]->h, (int)s->opt[1]);
				snprintf(name, sizeof(name), "pk%zu", i); ok &= xmit_ec(s, name, rb[i]->pk, ra[i]->pk, (int)s->opt[1]);
				snprintf(name, sizeof(name), "c%zu0", i); ok &= xmit_bn(s, name, rb[i]->c[0], ra[i]->c[0], 0);
				snprintf(name, sizeof(name), "c%zu1", i); ok &= xmit_bn(s, name, rb[i]->c[1], ra[i]->c[1], 0);
				snprintf(name, sizeof(name), "r%zu0", i); ok &= xmit_bn(s, name, rb[i]->r[0], ra[i]->r[0], 0);
				snprintf(name, sizeof(name), "r%zu1", i); ok &= xmit_bn(s, name, rb[i]->r[1], ra[i]->r[1], 0);
			}
			s->blen[0] = xmit_bytes(s, "msg", s->buf[0], s->msg, s->msg_len);
			s->flag[0] = ok;
			return 1;
		}
		case 4:
			if (s->flag[0]) log_ver(s, "ver", cp_ers_ver(s->b[12], (const ers_t *)rb, s->blen[5], s->buf[0], s->blen[0], s->e[5]) == 1);
			else tr_printf("VER %d ver decode-failed\n", s->sid);
			return 0;
	}
	return 0;
}

/* ---- multi-key linearly homomorphic signatures: 2 signers x 2 labels, evaluator combines ---- */
static int sch_mklhs(sess_t *s) {
	static const char *data = "database-identifier";
	static const char *id[2] = { "Alice", "Bob" };
	static const char *tags[2] = { "l0", "l1" };
	switch (s->phase) {
		case 0:
			/* sk b[0..1], pk g2[0..1] */
			for (int j = 0; j < 2; j++) { log_rc(s, "gen", cp_mklhs_gen(s->b[j], s->g2[j])); }
			return 1;
		case 1:
			/* messages b[2 + 2j + l], signatures g1[2j + l] */
			for (int j = 0; j < 2; j++) {
				for (int l = 0; l < 2; l++) {
					bn_rand_mod(s->b[2 + 2 * j + l], ord);
					log_rc(s, "sig", cp_mklhs_sig(s->g1[2 * j + l], s->b[2 + 2 * j + l], data, id[j], tags[l], s->b[j]));
				}
			}
			return 1;
		case 2: {
			/* evaluator: coefficients from the plan; mu_j b[6 + j], combined signature g1[4], combined message b[8] */
			dig_t f[2][2];
			for (int j = 0; j < 2; j++) { for (int l = 0; l < 2; l++) { f[j][l] = (dig_t)(1 + ((s->opt[7] >> (4 * (2 * j + l))) & 15)); } }
			g1_set_infty(s->g1[4]);
			bn_zero(s->b[8]);
			for (int j = 0; j < 2; j++) {
				log_rc(s, "fun", cp_mklhs_fun(s->b[6 + j], (const bn_t *)(s->b + 2 + 2 * j), f[j], 2));
				log_rc(s, "evl", cp_mklhs_evl(s->g1[5], (const g1_t *)(s->g1 + 2 * j), f[j], 2));
				g1_add(s->g1[4], s->g1[4], s->g1[5]);
				for (int l = 0; l < 2; l++) {
					bn_mul_dig(s->b[9], s->b[2 + 2 * j + l], f[j][l]);
					bn_add(s->b[8], s->b[8], s->b[9]);
					bn_mod(s->b[8], s->b[8], ord);
				}
			}
			g1_norm(s->g1[4], s->g1[4]);
			return 1;
		}
		case 3: {
			int ok = 1;
			ok &= xmit_g2(s, "pk0", s->g2[5], s->g2[0], (int)s->opt[1]);
			ok &= xmit_g2(s, "pk1", s->g2[6], s->g2[1], (int)s->opt[1]);
			ok &= xmit_g1(s, "sig", s->g1[6], s->g1[4], (int)s->opt[1]);
			ok &= xmit_bn(s, "m", s->b[12], s->b[8], 0);
			ok &= xmit_bn(s, "mu0", s->b[13], s->b[6], 0);
			ok &= xmit_bn(s, "mu1", s->b[14], s->b[7], 0);
			s->flag[0] = ok;
			return 1;
		}
		case 4:
			if (s->flag[0]) {
				dig_t f[2][2], ft[2];
				const dig_t *fp[2] = { f[0], f[1] };
				size_t flen[2] = { 2, 2 };
				g1_t h[2];
				for (int j = 0; j < 2; j++) { for (int l = 0; l < 2; l++) { f[j][l] = (dig_t)(1 + ((s->opt[7] >> (4 * (2 * j + l))) & 15)); } }
				int v1 = cp_mklhs_ver(s->g1[6], s->b[12], (const bn_t *)(s->b + 13), data, id, tags, fp, flen, (const g2_t *)(s->g2 + 5), 2) == 1;
				log_ver(s, "ver", v1);
				/* offline/online verification must agree with plain verification */
				for (int j = 0; j < 2; j++) { g1_null(h[j]); g1_new(h[j]); }
				cp_mklhs_off(h, ft, id, tags, fp, flen, 2);
				int v2 = cp_mklhs_onv(s->g1[6], s->b[12], (const bn_t *)(s->b + 13), data, id, (const g1_t *)h, ft, (const g2_t *)(s->g2 + 5), 2) == 1;
				log_ver(s, "onv", v2);
				for (int j = 0; j < 2; j++) { g1_free(h[j]); }
			} else tr_printf("VER %d ver decode-failed\n", s->sid);
			return 0;
	}
	return 0;
}

#define EXTRA_SCHEMES \
	{ "bbs", sch_bbs, 1, 0, 0 }, { "zss", sch_zss, 1, 0, 0 }, { "cls", sch_cls, 1, 0, 0 }, { "cli", sch_cli, 1, 0, 0 }, \
	{ "clb", sch_clb, 1, 0, 0 }, { "pss", sch_pss, 1, 0, 0 }, { "psb", sch_psb, 1, 0, 0 }, { "vbnn", sch_vbnn, 0, 0, 0 }, \
	{ "pokdl", sch_pokdl, 0, 0, 0 }, { "sokdl", sch_pokdl, 0, 0, 0 }, { "pokor", sch_pokor, 0, 0, 0 }, { "sokor", sch_pokor, 0, 0, 0 }, \
	{ "ers", sch_ers, 0, 0, 0 }, { "mklhs", sch_mklhs, 1, 0, 0 },
