"""Replays the committed regression plans of repaired defects (seeded/R*/, index in seeded/R-index.json):
a defect that was repaired in /repo and returns is reported from its own plan, whatever the seed."""
import json
import os

from . import core

ROOT = os.path.dirname(os.path.dirname(os.path.abspath(__file__)))


def plans_for(prop):
    path = os.path.join(ROOT, 'seeded', 'R-index.json')
    if not os.path.exists(path):
        return []
    return [e for e in json.load(open(path)) if e['property'] == prop]


def replay(prop, exes, load_engine, known, slow=False):
    """exes: {(engine, config): executable} of the stages built in this run.  Returns a list of
    (entry, signature, detail) for plans that violate the property again, and the number replayed."""
    bad, n = [], 0
    for e in plans_for(prop):
        exe = exes.get((e['engine'], e['config']))
        path = os.path.join(ROOT, e['plan'])
        if exe is None or not os.path.exists(path) or (e.get('slow') and not slow):
            continue
        eng = load_engine(e['engine'])
        sigs, _h, _st = core.evaluate_fresh(eng, e['config'], exe, path, prop, opts=dict(prop=prop))
        n += 1
        for p_, s_, d_ in sigs:
            if p_ == prop and not core.known_entry(s_, known):
                bad.append((e, s_, d_))
                break
    return bad, n
