# ctxsim: context-switch histories and re-parameterisation histories (DESIGN.md 3.6.2 / 3.6.3)
from .core import Outcome

NAME = 'ctxsim'
TIMEOUT = 40.0
CURVES = ['NIST_P256', 'BSI_P256', 'SM2_P256', 'SECG_K256', 'SM9_P256', 'BN_P256']
SHRINK_LINES = False      # removing a selection would leave the final probe without its layer


def gen_script(rng, maxsel=4, maxwork=10, allow_reinit=True):
    """One context's script: list of 'item args' strings, ending in PROBE <layers>.
    Also returns the reference script: the last selection of every probed layer + the probe."""
    steps = ['RESEED ' + rng.bytes(8).hex()]
    l0 = l1 = l2 = l3 = l4 = None  # the selection line currently in force per layer (l0: field-only selection; l4: binary field only)
    nsel = rng.randint(1, maxsel)
    for si in range(nsel):
        # ---- a selection (or a failed one, or a re-initialisation)
        r = rng.below(112)
        if r >= 100:
            # a field-only selection: curve and pairing layers above it become stale by contract
            l0 = 'FPSET ' + rng.choice(['NIST_256', 'BSI_256', 'SECG_256', 'SM2_256', 'BN_256', 'SM9_256', 'any', 'tower'])   # not 'dense': it draws a random prime from the generator
            l1 = l2 = None
            steps.append(l0)
        elif r < 38:
            l0 = None
            l1 = 'EPSET ' + rng.choice(CURVES)
            l2 = None                                       # a pairing stack from before is stale by contract
            steps.append(l1)
        elif r < 58:
            l0 = None
            l1 = l2 = 'PCANY'
            steps.append('PCANY')
        elif r < 68:
            l0 = None
            l1 = 'EPANY ' + rng.choice(['plain', 'endom', 'ec', 'any'])
            l2 = None
            steps.append(l1)
        elif r < 73:
            l3 = 'EBSET ' + rng.choice(['any', 'NIST_B283', 'NIST_K283'])
            l4 = None
            steps.append(l3)
        elif r < 80:
            # the binary field alone (its reduction polynomial): a binary curve from before is stale by contract
            l4 = 'FBSET ' + rng.choice(['NIST_283', 'SQRT_283', 'SQRT_283', 'any'])
            l3 = None
            steps.append(l4)
        elif r < 88:
            # a failed selection: the one in force must stay in force
            steps.append(rng.choice(['EPSET UNSUPPORTED', 'EBSET bad'] + ([] if l2 else ['TWIST bad'])))     # a twist type that is neither: only while no pairing layer is in force
            steps.append('GETCODE')
            steps.append('CLRERR')
        elif allow_reinit:
            steps.append('REINIT')
            steps.append('RESEED ' + rng.bytes(8).hex())
            l0 = l1 = l2 = l3 = l4 = None
        # ---- work that touches caches and derived constants of what is selected
        for _ in range(rng.randint(0, maxwork)):
            pool = [('W_FAIL %d' % rng.below(3), 6), ('GETCODE', 8), ('RAND', 4), ('W_THROWOUT', 2),
                    ('W_HASH %d' % rng.below(1000), 3), ('W_SSS', 2), ('W_PSI', 2), ('W_STR %d' % rng.below(1000), 2)]
            if l1:
                k = rng.bytes(rng.choice([1, 8, 20, 32])).hex()
                pool += [('W_MULGEN ' + k, 10), ('W_MUL ' + k, 8), ('W_SIM ' + k, 6), ('W_PRE ' + k, 6),
                         ('W_MAP m%d' % rng.below(1000), 6), ('W_FPINV ' + k, 6), ('W_ECDSA', 5), ('W_ECIES', 3)]
            if l2:
                pool.append(('W_PAIR %d' % rng.below(1000), 6))
            if l3:
                pool.append(('W_EB ' + rng.bytes(8).hex(), 6))
            it = rng.weighted(pool)
            steps.append(it)
            if it == 'W_THROWOUT':
                steps.append('CLRERR')
    layers = ('0' if (l0 and not l1) else '') + ('1' if l1 else '') + ('2' if l2 else '') + ('3' if l3 else '') + ('4' if (l4 and not l3) else '')
    steps.append('CLRERR')
    ref = ['RESEED 00']
    if layers:
        steps.append('PROBE ' + layers)
        seen = []
        for sel in ((l0 if not l1 else None), l1, l2, l3, (l4 if not l3 else None)):
            if sel and sel not in seen:
                seen.append(sel)
                ref.append(sel)
        ref.append('CLRERR')
        ref.append('PROBE ' + layers)
    last = (l2 or l1 or l0 or l3 or l4 or 'none')
    if rng.chance(0.4):
        steps.append('FINI')        # this context is finalised while the others carry on
    return steps, ref, last


def gen_plan(rng, tier, config, opts):
    lines = ['relic-sim-plan 1', 'engine ctxsim', 'config ' + config]
    k = rng.choice([1, 2, 2, 3, 3, 4])
    scripts = []
    for i in range(k):
        steps, ref, last = gen_script(rng)
        scripts.append(steps)
        lines.append('# ref %d %s' % (i, ' ; '.join(ref)))
        lines.append('# last %d %s' % (i, last))
    # what the storage of the contexts other than the library's own holds before their first initialisation (the solo
    # references run in the zero-initialised static context of a fresh process)
    for i in range(1, k):
        if rng.chance(0.5):
            lines.append('CTXFILL %d %d' % (i, rng.choice([0xA5, 0xFF, 1, 0x5A, rng.randint(1, 255)])))
    # the scheduler: interleave at step granularity (sometimes in long runs, sometimes step by step)
    pos = [0] * k
    burst = rng.choice([1, 1, 2, 5, 1000])
    while any(pos[i] < len(scripts[i]) for i in range(k)):
        live = [i for i in range(k) if pos[i] < len(scripts[i])]
        i = rng.choice(live)
        for _ in range(rng.randint(1, burst)):
            if pos[i] >= len(scripts[i]):
                break
            lines.append('STEP %d %s' % (i, scripts[i][pos[i]]))
            pos[i] += 1
    return '\n'.join(lines) + '\n'


def _scripts(plan):
    sc, refs, last = {}, {}, {}
    for ln in plan.split('\n'):
        if ln.startswith('STEP '):
            f = ln.split(' ', 2)
            sc.setdefault(int(f[1]) % 4, []).append(f[2])
        elif ln.startswith('# ref '):
            f = ln.split(' ', 3)
            refs[int(f[2])] = [x.strip() for x in f[3].split(';')]
        elif ln.startswith('# last '):
            f = ln.split(' ', 3)
            last[int(f[2])] = f[3]
    return sc, refs, last


def extra_runs(plan):
    sc, refs, _ = _scripts(plan)
    out = []
    hdr = 'relic-sim-plan 1\nengine ctxsim\nconfig A\n'
    for i in sorted(sc):
        out.append(hdr + ''.join('STEP 0 %s\n' % s for s in sc[i]))                     # the script alone
        out.append(hdr + ''.join('STEP 0 %s\n' % s for s in refs.get(i, [])))           # fresh + last selection + probe
    return out


def _split(tr):
    d, cur = {}, None
    for ln in tr.split('\n'):
        if ln.startswith('CTX '):
            cur = int(ln.split()[1])
            d[cur] = []
        elif ln and cur is not None:
            d[cur].append(ln)
    return d


def _probe_lines(lines):
    return [l for l in lines if l[:2] in ('P0', 'P1', 'P2', 'P3', 'P4')]


def _first_diff_field(a, b):
    fa, fb = a.split(' '), b.split(' ')
    for x, y in zip(fa, fb):
        if x != y:
            return x.split('=')[0]
    return 'length'


def check(plan, transcript, config, opts, refs=None):
    out = Outcome()
    sc, refscripts, last = _scripts(plan)
    got = _split(transcript)
    refs = refs or []
    idx = 0
    for i in sorted(sc):
        if idx + 1 >= len(refs) + 1 and idx >= len(refs):
            break
        solo = refs[idx] if idx < len(refs) else None
        fresh = refs[idx + 1] if idx + 1 < len(refs) else None
        idx += 2
        mine = got.get(i, [])
        out.evals += len(mine)
        sels = [s.split()[0] for s in sc[i] if s.split()[0] in ('FPSET', 'EPSET', 'PCANY', 'EPANY', 'EBSET', 'FBSET', 'REINIT')]
        out.keys.add(('script', tuple(sels), last.get(i)))
        for a, b in zip(sels, sels[1:]):
            out.keys.add(('pair', a, b))
        out.fault('context-switch', sum(1 for _ in sc[i]))
        out.fault('selection', len(sels))
        out.fault('failed-selection', sum(1 for s in sc[i] if s in ('EPSET UNSUPPORTED', 'EBSET bad', 'TWIST bad')))
        for ln in mine:
            # invariant of every completed step (executor side): the handler chain is what it was before the step
            if ln.startswith('CHAIN '):
                out.violate('C19', 'C19|ctxsim|handler-chain|%s' % ln.split()[1],
                            'context %d: the handler chain of the context was not restored when the step %s returned' % (i, ln.split()[1]))
                break
        out.fault('reinit', sels.count('REINIT'))
        out.fault('context-storage-prefilled', sum(1 for ln in plan.split('\n') if ln.startswith('CTXFILL %d ' % i)))
        if solo is not None:
            if solo[0] != 'ok':
                out.probe('solo-reference-died')
            else:
                ref_lines = _split(solo[1]).get(0, [])
                if mine != ref_lines:
                    j = next((k for k in range(min(len(mine), len(ref_lines))) if mine[k] != ref_lines[k]), min(len(mine), len(ref_lines)))
                    a = mine[j] if j < len(mine) else '<missing>'
                    b = ref_lines[j] if j < len(ref_lines) else '<missing>'
                    out.violate('C19', 'C19|ctxsim|switch|%s|%s' % (a.split(' ')[0], _first_diff_field(a, b)),
                                'context %d interleaved with %d other context(s) differs from the same script run alone in a fresh '
                                'process at line %d:\n  interleaved: %s\n  alone:       %s' % (i, len(sc) - 1, j, a[:400], b[:400]))
        if fresh is not None and refscripts.get(i) and len(refscripts[i]) > 1:
            if fresh[0] != 'ok':
                out.probe('fresh-reference-died')
            else:
                pa = _probe_lines(mine)
                pb = _probe_lines(_split(fresh[1]).get(0, []))
                out.evals += len(pa)
                if pa != pb:
                    j = next((k for k in range(min(len(pa), len(pb))) if pa[k] != pb[k]), min(len(pa), len(pb)))
                    a = pa[j] if j < len(pa) else '<missing>'
                    b = pb[j] if j < len(pb) else '<missing>'
                    out.violate('C19', 'C19|ctxsim|reparam|%s|%s|%s' % (last.get(i, '?').replace(' ', '_'), a.split(' ')[0], _first_diff_field(a, b)),
                                'context %d: after the history %s the probe differs from a fresh library with only the last '
                                'selection(s) %s:\n  history: %s\n  fresh:   %s' % (i, sels, refscripts[i][1:-2], a[:500], b[:500]))
    out.sim_time = sum(len(v) for v in sc.values())
    return out
