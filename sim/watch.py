# Shared-state watch list for thrsim (DESIGN.md 3.6, "race-directed schedules").
#
# In the thread-enabled build every piece of library state is supposed to live in the thread-local context.  Code
# that reads or writes *writable, non-thread-local static storage* (.bss / .data / common symbols) is therefore exactly
# where two threads can meet.  This module finds those places in the library as built from the current tree:
# for every relocation in a text section of librelic_s.a against such a symbol it records the function and the
# offset (inside the function) of the last preceding call to __sanitizer_cov_trace_pc - the preemption point that
# opens the basic block containing the access.  The offsets are turned into absolute return addresses with the
# symbol table of the (non-PIE) executor and written to <executor>.watch, one hexadecimal address per line.
# The executor counts callbacks from these addresses as "watch events"; plans can park a thread at one (WPARK).
#
# Nothing here looks at /verif/seeded or at any particular change: the list is a function of the library's own
# object code.  On the unchanged tree it holds a handful of blocks (core_get / core_init and the thread initialiser,
# two hash reset functions that read initial values from .data).
import collections
import os
import re
import subprocess

_W_SECT = re.compile(r'^(\.bss|\.data|\.lbss|\.ldata)(\.|$)|^\*COM\*$')


def _writable_symbols(lib):
    t = subprocess.run(['objdump', '-t', lib], stdout=subprocess.PIPE).stdout.decode(errors='replace')
    per, glob, obj = collections.defaultdict(set), set(), None
    for ln in t.split('\n'):
        m = re.match(r'^(\S+\.o):\s+file format', ln)
        if m:
            obj = m.group(1)
            continue
        m = re.match(r'^([0-9a-f]{16}) (.{7}) (\S+)\t([0-9a-f]+) (.*)$', ln)
        if not m:
            continue
        flags, sec, name = m.group(2), m.group(3), m.group(5).strip()
        if not _W_SECT.match(sec) or 'rel.ro' in sec:
            continue
        name = name.split(' ')[-1]          # ".hidden name" -> name
        per[obj].add(name)
        if flags[0] in 'gu':
            glob.add(name)
    return per, glob


def sites(lib):
    """[(object, function, offset of the return address of the block's callback inside the function or None, symbol)]"""
    per, glob = _writable_symbols(lib)
    d = subprocess.run(['objdump', '-dr', '--no-show-raw-insn', lib], stdout=subprocess.PIPE).stdout.decode(errors='replace')
    obj = fn = None
    fstart, last_cb, res = 0, None, []
    for ln in d.split('\n'):
        m = re.match(r'^(\S+\.o):\s+file format', ln)
        if m:
            obj = m.group(1)
            continue
        m = re.match(r'^([0-9a-f]{16}) <(.+)>:$', ln)
        if m:
            fn, fstart, last_cb = m.group(2), int(m.group(1), 16), None
            continue
        m = re.match(r'^\s+([0-9a-f]+): (R_X86_64_\S+)\s+(\S+)$', ln)
        if not m or fn is None:
            continue
        off, typ, tgt = int(m.group(1), 16), m.group(2), m.group(3)
        sym = re.sub(r'[+-]0x[0-9a-f]+$', '', tgt)
        if sym == '__sanitizer_cov_trace_pc':
            last_cb = off + 4 - fstart
            continue
        if 'TPOFF' in typ or 'TLS' in typ or 'DTPOFF' in typ:
            continue
        if sym in per.get(obj, ()) or sym in glob:
            res.append((obj, fn, last_cb, sym))
    return res


def addresses(lib, exe):
    """Absolute callback return addresses (in the non-PIE executor) of the watched blocks, with their names."""
    nm = subprocess.run(['nm', '--defined-only', exe], stdout=subprocess.PIPE).stdout.decode(errors='replace')
    addr = collections.defaultdict(list)
    for ln in nm.split('\n'):
        p = ln.split()
        if len(p) == 3 and p[1] in 'tTwW':
            addr[p[2]].append(int(p[0], 16))
    out = {}
    for obj, fn, cb, sym in sites(lib):
        if cb is None:
            continue
        for a in addr.get(fn, ()):
            out[a + cb] = '%s+0x%x (%s)' % (fn, cb, sym)
    return out


def write(lib, exe):
    path = exe + '.watch'
    if os.path.exists(path) and os.path.getmtime(path) >= os.path.getmtime(exe) and os.path.getmtime(path) >= os.path.getmtime(lib):
        return path
    a = addresses(lib, exe)
    with open(path + '.tmp', 'w') as f:
        for k in sorted(a):
            f.write('%x %s\n' % (k, a[k]))
    os.replace(path + '.tmp', path)
    return path
