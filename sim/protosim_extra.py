# further protosim schemes (registered into protosim.SCHEMES)
