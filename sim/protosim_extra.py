# further protosim schemes (registered into protosim.SCHEMES)
from . import protosim as P
from .protosim import Spec, SCHEMES, sint


KEYFIELDS = {'pk', 'z', 'x', 'y', 'g', 'mpk', 'pp', 'pk0', 'pk1', 'pk2', 'y0', 'y1', 'y2', 'z0', 'z1'}


def sig_oracle(modn=(), int_msg=False, blocks=False, ok_malleations=(), extra=None, vers=('ver',)):
    """Metamorphic signature oracle with scheme-specific notions of 'the same value':
    modn     fields that are scalars of Z_r (message scalars, commitment openings): equal iff equal mod r
    int_msg  the message bytes are read as one big-endian integer mod r (no hashing)
    blocks   the message is split in l blocks, each read as an integer mod r"""

    def oracle(s, ctx, v, out):
        n = ctx['param']['n']
        if any(x not in s.ver for x in vers):
            return
        got = s.ver[vers[0]]
        und = s.undamaged_decode_failed()
        if und:
            v.bad('undamaged-decode-failed', 'field %s arrived intact but did not decode' % und)
            return
        if got == 'decode-failed':
            out.keys.add((s.scheme, 'decode-failed', tuple(s.faults())))
            return
        pre = s.opts.get('hash') == '1'
        if any('1' in v for k, v in s.rc.items() if k in ('sig', 'prv', 'gen', 'genprv', 'ext')):
            out.probe('signer-refused')
            return              # the signer refused (e.g. a message longer than the scheme admits): nothing to verify

        def changed(f):
            r = s.m[f]
            if r['dec'] != 'ok':
                return True
            if f in modn and r['type'] == 'bn':
                return sint(r['val']) % n != int.from_bytes(r['orig'], 'big') % n
            if f == 'msg' and (int_msg or (pre and s.scheme in ('bbs', 'zss'))):
                a, b = r['sent'], r['orig']
                if blocks:
                    l = max(1, min(3, int(s.opts.get('k', 1))))

                    def split(m):
                        part = len(m) // l
                        return [int.from_bytes(m[i * part:(len(m) if i == l - 1 else (i + 1) * part)], 'big') % n for i in range(l)]
                    return split(a) != split(b)
                return int.from_bytes(a, 'big') % n != int.from_bytes(b, 'big') % n
            return s.changed(f)

        ch = [f for f in s.m if changed(f)]
        # a Z_r scalar sent as x + r: equivalent by the scheme's definition, but a verifier may also
        # insist on the reduced form - nothing asserted
        if any(f in modn and s.m[f]['kind'] in ('v_addord', 'v_ord') for f in s.m):
            out.probe('message-scalar-plus-order')
            return
        out.evals += 1
        out.keys.add((s.scheme, tuple(s.faults()), got, bool(ch), s.opts.get('hash'), s.opts.get('pack')))
        if P.all_identity(s):
            out.fault('all-identity-triple')
            if got == '1':
                v.bad('all-identity|expected=reject|got=accept', 'the triple in which every group element is the identity was accepted')
            return
        if 'rerandomised' in s.notes:
            out.probe('legal-malleation')
        if 'statements-swapped' in s.notes:
            ch.append('stmt')
        for nt in s.notes:
            if nt.startswith('coordinated-') or nt in ('forged-extension', 'related-key-adapted'):
                ch.append(nt)
        nkey = sum(1 for f in ch if f in KEYFIELDS)
        if ((nkey and any(f not in KEYFIELDS for f in ch)) or nkey >= 2) and s.scheme not in ('pokor', 'sokor'):
            # the adversary replaced key material and signature together, or several key components
            # consistently (pk := 2 pk with z := z^2): the result may be a valid triple under the
            # substituted key; nothing asserted
            out.probe('key-and-signature-both-substituted')
            return
        kinds = tuple(sorted('%s:%s' % (f, s.m[f]['kind']) for f in ch if f in s.m))
        if ch and kinds in ok_malleations:
            out.probe('legal-malleation')
            if got != '1':
                v.bad('expected=accept|got=reject', 'a legal malleation was rejected')
            return
        if not ch:
            if got != '1':
                v.bad('expected=accept|got=reject', 'every field arrived with its value unchanged%s but verification failed' % (
                    ' (after a legal re-randomisation)' if 'rerandomised' in s.notes else ''))
        else:
            out.fault('altered-authenticated-field')
            if got == '1':
                v.bad('expected=reject|got=accept', 'verification accepted although %s changed in value' % ch)
        for other in vers[1:]:
            if s.ver[other] != got:
                v.bad('equivalent-verifiers-disagree' + ('|large-coefficients' if s.scheme == 'mklhs' and s.opts.get('cls') == '1' else ''),
                      '%s says %s, %s says %s' % (vers[0], got, other, s.ver[other]))
        if extra:
            extra(s, ctx, v, out)
    return oracle


def nosub(field):
    def extra(s, ctx, v, out):
        r = s.m.get(field)
        if r and r['kind'] == 'v_nosub' and r['dec'] == 'ok' and r.get('insub') == '0':
            out.fault('public-key-outside-subgroup')
            if s.ver.get('ver') == '1':
                v.bad('%s:v_nosub|expected=reject|got=accept' % field, 'a public key outside the order-r subgroup was accepted')
    return extra


# Schemes that read the message as an integer of Z_r: a zero message (or block) leaves part of the key
# unauthenticated by the scheme's definition, so messages are random and at least 8 bytes per block.
def lopt(rng):
    return dict(k=rng.randint(1, 3), mlen=rng.choice([24, 31, 32, 33, 64, 96, 100, 300, 450]), mkind='rand')


def imsg(rng):
    return dict(mlen=rng.choice([8, 16, 31, 32, 33, 64, 100, 140, 150, 300]), mkind='rand')


RER = [('sig', 'v_rerand')]
# negating every component is the re-randomisation with t = -1: a valid signature by definition
# (the same holds for t = 2: every component doubled)
NEG2 = (('a:v_neg', 'b:v_neg'), ('a:v_dbl', 'b:v_dbl'))
NEG3 = (('a:v_neg', 'b:v_neg', 'c:v_neg'), ('a:v_dbl', 'b:v_dbl', 'c:v_dbl'))
NEG5 = (('A:v_neg', 'B:v_neg', 'a:v_neg', 'b:v_neg', 'c:v_neg'), ('A:v_dbl', 'B:v_dbl', 'a:v_dbl', 'b:v_dbl', 'c:v_dbl'))

SCHEMES.update({
    'bbs': Spec('C05', 4, dict(pk='g2', z='gt', sig='g1', msg='bytes'), sig_oracle(), pc=True,
                opts=lambda rng: dict(hash=rng.below(2), mlen=rng.choice([0, 1, 20, 31, 32, 33, 64, 100, 129]))),
    'zss': Spec('C05', 4, dict(pk='g1', z='gt', sig='g2', msg='bytes'), sig_oracle(), pc=True,
                opts=lambda rng: dict(hash=rng.below(2), mlen=rng.choice([0, 1, 20, 31, 32, 33, 64, 100, 129]))),
    'cls': Spec('C05', 4, dict(x='g2', y='g2', a='g1', b='g1', c='g1', msg='bytes'),
                sig_oracle(int_msg=True, ok_malleations=NEG3), pc=True,
                opts=imsg, extra_faults=RER),
    'cli': Spec('C05', 4, dict(x='g2', y='g2', z='g2', a='g1', A='g1', b='g1', B='g1', c='g1', r='bn', msg='bytes'),
                sig_oracle(int_msg=True, modn=('r',), ok_malleations=NEG5), pc=True, opts=imsg,
                extra_faults=[('forge', 'v_moved'), ('forge', 'v_moved')]),
    'clb': Spec('C05', 4, dict(x='g2', y='g2', a='g1', b='g1', c='g1', msg='bytes'),
                sig_oracle(int_msg=True, blocks=True), pc=True, opts=lopt,
                extra_faults=[('z0', 'v_dbl'), ('A0', 'v_rand'), ('B0', 'flip'), ('z0', 'flip'), ('A1', 'v_neg'), ('B1', 'v_dbl'),
                              ('pairA', 'v_swap'), ('pairA', 'v_shift'), ('pairB', 'v_swap'), ('pairB', 'v_shift')]),
    'pss': Spec('C05', 4, dict(g='g2', x='g2', y='g2', a='g1', b='g1', m='bn'), sig_oracle(modn=('m',), ok_malleations=NEG2), pc=True,
                opts=imsg, extra_faults=RER),
    'psb': Spec('C05', 4, dict(g='g2', x='g2', y0='g2', a='g1', b='g1', m0='bn'), sig_oracle(modn=('m0', 'm1', 'm2'), ok_malleations=NEG2), pc=True,
                opts=lambda rng: dict(k=rng.randint(1, 3))),
    'vbnn': Spec('C05', 5, dict(mpk='ec', R='ec', z='bn', h='bn', id='bytes', msg='bytes'), sig_oracle()),
    'pokdl': Spec('C05', 4, dict(y='ec', c='bn', r='bn'), sig_oracle(), weight=6, extra_faults=[('forge', 'v_relkey')]),
    'sokdl': Spec('C05', 4, dict(y='ec', c='bn', r='bn', msg='bytes'), sig_oracle(), weight=6, extra_faults=[('forge', 'v_relkey')]),
    'pokor': Spec('C05', 4, dict(y0='ec', y1='ec', c0='bn', c1='bn', r0='bn', r1='bn'), sig_oracle(), weight=6,
                  opts=lambda rng: dict(cls=rng.below(2)), extra_faults=[('stmt', 'v_swap')]),
    'sokor': Spec('C05', 4, dict(y0='ec', y1='ec', c0='bn', c1='bn', r0='bn', r1='bn', msg='bytes'), sig_oracle(), weight=6,
                  opts=lambda rng: dict(cls=rng.below(2)), extra_faults=[('stmt', 'v_swap')]),
    'ers': Spec('C05', 5, dict(pp='ec', td='bn', h0='ec', pk0='ec', c00='bn', c01='bn', r00='bn', r01='bn', pk1='ec', c10='bn',
                               r11='bn', msg='bytes'), sig_oracle(),
                opts=lambda rng: dict(k=rng.randint(1, 3))),
    'mklhs': Spec('C05', 5, dict(pk0='g2', pk1='g2', sig='g1', m='bn', mu0='bn', mu1='bn'),
                  sig_oracle(modn=('m', 'mu0', 'mu1', 'mu2'), vers=('ver', 'onv')), pc=True,
                  opts=lambda rng: dict(ord=rng.below(1 << 16), k=rng.choice([0, 1, 1, 2, 2]), n=rng.choice([0, 1, 1, 2]),
                                        cls=1 if rng.chance(0.25) else 0)),      # cls: coefficients with the top bits set
})


# ----------------------------------------------------------------------------- C06 batch 2

def o_agg(modulus_of):
    def oracle(s, ctx, v, out):
        if 'sum' not in s.out:
            return
        mod = modulus_of(s)
        k = max(1, min(4, int(s.opts.get('k', 2))))
        exp = 0
        for i in range(k):
            exp += s.deliver.get('c%d' % i, 1) * s.out.get('pt%d' % i, 0)
        out.evals += 1
        wraps = exp >= mod
        if wraps:
            out.probe('homomorphic-sum-wraps-modulus')
        out.keys.add((s.scheme, tuple(sorted(s.deliver.values())), wraps, s.opts.get('cls'), s.opts.get('n')))
        if s.out['sum'] != exp % mod:
            v.bad('wrong-sum' + ('|s=%d' % (1 + int(s.opts.get('cls', 0)) % 3) if s.scheme == 'ghpe' else ''), 'combined ciphertext decrypts to %x, the delivered plaintexts combine to %x' % (s.out['sum'], exp % mod))
    return oracle


def o_rabin(s, ctx, v, out):
    if 'dec' not in s.rc:
        return
    rc = s.rc['dec'][0]
    out.evals += 1
    out.keys.add(('rabin', tuple(s.faults()), rc, min(len(s.msg), 90)))
    if not s.changed('ct'):
        if rc != '0' or s.out.get('pt') != s.msg:
            v.bad('roundtrip', 'honest ciphertext: rc=%s, plaintext %s, sent %s' % (rc, s.out.get('pt', b'').hex()[:60], s.msg.hex()[:60]))
    else:
        # Rabin's 64-bit redundancy is not authentication: structured damage (appended zero bytes multiply
        # the ciphertext by a square) keeps it intact, so what a corrupted ciphertext decrypts to is not
        # asserted - only that decryption terminates cleanly, which the run itself establishes
        out.fault('altered-ciphertext')


def o_ibe(s, ctx, v, out):
    if 'dec' not in s.rc:
        return
    rc = s.rc['dec'][0]
    out.evals += 1
    wrong = int(s.opts.get('cls', 0)) & 1
    changed = [f for f in ('pub', 'prv', 'ct') if s.changed(f)]
    out.keys.add(('ibe', tuple(s.faults()), rc, wrong, min(len(s.msg), 70)))
    if wrong:
        out.fault('wrong-identity-key')
        if s.changed('pub'):
            # the sender encrypted under substituted system parameters (the trust root of the scheme, e.g. the
            # identity as master public key, under which every mask is H(1)): nothing asserted
            out.probe('system-parameters-substituted')
        elif rc == '0' and s.out.get('pt') == s.msg and len(s.msg) > 4:
            v.bad('wrong-identity-decrypts', "another identity's private key recovered the plaintext")
    elif not changed:
        if rc != '0' or s.out.get('pt') != s.msg:
            v.bad('roundtrip', 'honest ciphertext: rc=%s plaintext %s (sent %s)' % (rc, s.out.get('pt', b'').hex()[:60], s.msg.hex()[:60]))
    if 'ct' in s.m and s.m['ct'].get('sent') is not None:
        # a ciphertext is one uncompressed G1 point and 1..32 masked bytes: anything outside that range has a
        # wrong length whatever its contents, and must be refused rather than produce data
        n = len(s.m['ct']['sent'])
        fb = ctx['param']['fpbytes']
        lo, hi = 2 * fb + 2, 2 * fb + 1 + 32
        if n < lo or n > hi:
            out.fault('ciphertext-of-inadmissible-length')
            if rc == '0':
                v.bad('wrong-length-accepted', 'a %d-byte ciphertext (admissible: %d..%d) was decrypted to %d bytes' % (n, lo, hi, len(s.out.get('pt', b''))))


def o_bgn(s, ctx, v, out):
    if 'm' not in s.out:
        return
    m = s.out['m']
    m1, m2, m3 = (m >> 16) & 255, (m >> 8) & 255, m & 255
    out.evals += 1
    out.keys.add(('bgn', m1, m2, m3))
    if 'sum1' in s.out and s.out['sum1'] != m1 + m3:
        v.bad('wrong-sum', 'Enc1(%d) + Enc1(%d) decrypts to %d' % (m1, m3, s.out['sum1']))
    if 'prod' in s.out and s.out['prod'] != (m1 + m3) * m2:
        v.bad('wrong-product', '(%d + %d) * %d decrypts to %d' % (m1, m3, m2, s.out['prod']))
    if 'sum1' not in s.out or 'prod' not in s.out:
        v.bad('decrypt-failed', 'honest BGN ciphertexts did not decrypt: %s' % s.rc)


def o_sokaka(s, ctx, v, out):
    if 'keyA' not in s.out or 'keyB' not in s.out:
        if 'keyA' in s.rc and 'keyB' in s.rc:
            v.bad('key-derivation-failed', 'rc %s' % s.rc)
        return
    out.evals += 1
    other = int(s.opts.get('cls', 0)) & 1
    out.keys.add(('sokaka', other, s.opts.get('klen'), s.opts.get('k')))
    if not other and s.out['keyA'] != s.out['keyB']:
        v.bad('keys-differ', 'alice derived %s, bob %s' % (s.out['keyA'].hex(), s.out['keyB'].hex()))
    if other and s.out['keyA'] == s.out['keyB'] and len(s.out['keyA']) >= 8:
        v.bad('third-party-derives-key', "carol's key equals the alice-bob key")


def o_mt(s, ctx, v, out):
    n = ctx['param']['n']
    if 'r0' not in s.out or 'r1' not in s.out:
        return
    out.evals += 1
    ch = [f for f in s.m if sint(s.m[f]['val'] or '0') % n != int.from_bytes(s.m[f]['orig'], 'big') % n or s.m[f]['dec'] != 'ok']
    out.keys.add(('mt', tuple(s.faults()), bool(ch), s.opts.get('cls')))
    if not ch:
        if (s.out['r0'] + s.out['r1']) % n != s.out['x'] * s.out['y'] % n:
            v.bad('wrong-product', 'shares recombine to %x, x*y mod n = %x' % ((s.out['r0'] + s.out['r1']) % n, s.out['x'] * s.out['y'] % n))


def o_pd(s, ctx, v, out):
    if 'ver' not in s.ver:
        return
    got = s.ver['ver']
    if got == 'decode-failed':
        return
    out.evals += 1
    ch = [f for f in s.m if s.changed(f)]
    out.keys.add((s.scheme, tuple(s.faults()), got, bool(ch)))
    if got == '1' and s.out.get('match') != 1:
        v.bad('accepted-wrong-pairing-value', 'the client accepted a value that is not e(P, Q) (altered: %s)' % ch)
    if not ch and got != '1':
        v.bad('expected=accept|got=reject', 'an honest helper was rejected')
    if ch:
        out.fault('dishonest-helper')


def o_pbpsi(s, ctx, v, out):
    sets = [l for l in s.lines if l.startswith('SETS ')]
    if not sets or 'inter' not in s.out:
        if 'int' in s.rc and s.rc['int'][0] != '0' and sets:
            d = P.kvs(sets[0].split())
            if int(d['m']) > 0:
                v.bad('intersection-failed', 'cp_pbpsi_int reported an error for m=%s n=%s' % (d['m'], d['n']))
        return
    d = P.kvs(sets[0].split())
    m, n, ov = int(d['m']), int(d['n']), int(d['ov'])
    out.evals += 1
    dup = any(l.startswith('NOTE ') and 'answer-duplicated=1' in l for l in s.lines)
    out.keys.add(('pbpsi', m, n, ov, dup))
    if dup:
        # a server that delivers one of its answers twice: nothing is asserted about the set that comes out, only that the
        # client reports at most as many elements as it has (its output array holds that many) - and the sanitizer watches
        out.fault('duplicate-delivery')
        if s.out['interlen'] > m:
            v.bad('more-elements-than-the-client-has', 'cp_pbpsi_int reported %d elements for a client set of %d' % (s.out['interlen'], m))
        return
    if s.out['inter'] != (1 << ov) - 1 or s.out['interlen'] != ov:
        v.bad('wrong-intersection', 'm=%d n=%d overlap=%d: output mask %x, length %d' % (m, n, ov, s.out['inter'], s.out['interlen']))


def o_rsapsi(s, ctx, v, out):
    sets = [l for l in s.lines if l.startswith('SETS ')]
    if not sets:
        return
    d = P.kvs(sets[0].split())
    m, n, ov = int(d['m']), int(d['n']), int(d['ov'])
    ch = [f for f in s.m if s.changed(f)]
    if ch:
        out.fault('query-or-answer-altered')
    if 'inter' not in s.out:
        if not ch and ('server-refused-query' in s.notes or 'client-refused-answer' in s.notes or any(x[0] != '0' for x in s.rc.get('int', []))):
            v.bad('intersection-failed', 'nothing was altered but the protocol did not complete (m=%d n=%d)' % (m, n))
        return
    out.evals += 1
    out.keys.add((s.scheme, m, n, ov, d.get('bits'), bool(ch)))
    if ch:
        return              # an altered query or answer may lose matches; nothing is asserted beyond termination
    if s.out['inter'] != (1 << ov) - 1 or s.out['interlen'] != ov:
        v.bad('wrong-intersection', 'm=%d n=%d overlap=%d: output mask %x, length %d' % (m, n, ov, s.out['inter'], s.out['interlen']))


def o_ped(s, ctx, v, out):
    n = ctx['param']['n']
    if 'open' not in s.ver:
        return
    got = s.ver['open']
    if got == 'decode-failed':
        return
    out.evals += 1

    def ch(f):
        r = s.m[f]
        if r['dec'] != 'ok':
            return True
        if r['type'] == 'bn':
            return sint(r['val']) % n != int.from_bytes(r['orig'], 'big') % n
        return s.changed(f)
    changed = [f for f in ('c', 'r', 'x') if f in s.m and ch(f)]
    out.keys.add(('ped', tuple(s.faults()), got, bool(changed)))
    if any(s.m[f]['kind'] in ('v_addord', 'v_ord') for f in ('r', 'x') if f in s.m):
        return
    if not changed:
        if got != '1':
            v.bad('expected=open|got=reject', 'an unmodified opening does not open the commitment')
        if s.ver.get('homo', '1') != '1':
            v.bad('not-homomorphic', 'c + c2 does not open to (r + r2, x + x2)')
    elif got == '1':
        v.bad('expected=reject|got=open', 'the commitment opened although %s changed' % changed)


def aggopts(rng):
    # cls + 1 is the Damgard-Jurik parameter s; s = 3 is drawn rarely (known finding: decryption is wrong there)
    return dict(k=rng.randint(1, 4), cls=rng.choice([0, 0, 0, 0, 1, 1, 1, 1, 2]), n=rng.choice([0, 0, 1, 2]), dup=rng.below(2))


AGGF = [('c0', 'drop'), ('c1', 'dup'), ('c0', 'dup'), ('c2', 'drop'), ('c1', 'drop'), ('c3', 'dup')]
GTH = ([('g0', k) for k in P.GT_FAULTS] + [('g1', k) for k in P.GT_FAULTS] + [('g2', k) for k in P.GT_FAULTS] +
       [('g3', 'v_inv'), ('g3', 'v_negfp'), ('g3', 'v_rand')])

SCHEMES.update({
    'ghpe': Spec('C06', 7, dict(), o_agg(lambda s: s.key['n'] ** (1 + int(s.opts.get('cls', 0)) % 3)), opts=aggopts, extra_faults=AGGF),
    'bdpe': Spec('C06', 7, dict(), o_agg(lambda s: s.out.get('block', 0xFB)), opts=lambda rng: dict(k=rng.randint(1, 4), n=rng.below(2), mlen=8, ord=rng.below(8)),
                 extra_faults=AGGF),
    'rabin': Spec('C06', 4, dict(ct='bytes'), o_rabin, opts=lambda rng: dict(mlen=rng.choice([1, 2, 10, 31, 32, 33, 60, 80, 84, 85]))),
    'ibe': Spec('C06', 6, dict(pub='g1', prv='g2', ct='bytes'), o_ibe, pc=True,
                opts=lambda rng: dict(cls=rng.choice([0, 0, 0, 1]), mlen=rng.choice([1, 5, 16, 31, 32, 33, 64, 100]))),
    'bgn': Spec('C06', 4, dict(), o_bgn, pc=True, weight=5, opts=lambda rng: dict(ord=rng.below(11 * 11 * 7))),
    'sokaka': Spec('C06', 5, dict(), o_sokaka, pc=True, weight=6,
                   opts=lambda rng: dict(cls=rng.choice([0, 0, 1]), klen=rng.choice([16, 32, 48]), k=rng.below(8))),
    'mt': Spec('C06', 6, dict(d0='bn', d1='bn', e0='bn', e1='bn'), o_mt, opts=lambda rng: dict(cls=rng.choice([0, 0, 0, 1]))),
    'pdpub': Spec('C06', 5, dict(), o_pd, pc=True, extra_faults=GTH, weight=6),
    'lvpub': Spec('C06', 5, dict(), o_pd, pc=True, extra_faults=[x for x in GTH if x[0] in ('g0', 'g1')], weight=6),
    'pdprv': Spec('C06', 4, dict(), o_pd, pc=True, extra_faults=GTH, weight=6),
    'lvprv': Spec('C06', 4, dict(), o_pd, pc=True, extra_faults=GTH, weight=6),
    'pbpsi': Spec('C06', 4, dict(), o_pbpsi, pc=True, weight=6,
                  opts=lambda rng: dict(k=rng.below(5), n=rng.below(5), cls=rng.below(5), dup=rng.choice([0, 0, 0, 1]))),
    'ped': Spec('C06', 4, dict(c='ec', r='bn', x='bn'), o_ped),
    'rsapsi': Spec('C06', 4, dict(d='bn', t0='bn', u0='bn', t1='bn', u1='bn'), o_rsapsi, weight=5,
                   opts=lambda rng: dict(k=rng.below(5), n=rng.below(5), cls=rng.below(5), dup=rng.below(3), klen=rng.below(200))),
    'shipsi': Spec('C06', 4, dict(d='bn', t0='bn', t1='bn', u='bn'), o_rsapsi, weight=5,
                   opts=lambda rng: dict(k=rng.below(5), n=rng.below(5), cls=rng.below(5), dup=rng.below(3), klen=rng.below(200))),
})


# ----------------------------------------------------------------------------- batch 3

def etrs_extra(s, ctx, v, out):
    # a threshold above the number of actual signers must never verify
    if s.ver.get('ver2') == '1':
        v.bad('threshold-overstated', 'a ring signature verified for a threshold one above the number of its signers')


def o_mpss(s, ctx, v, out):
    if 'ver' not in s.ver or 'plain' not in s.ver:
        return
    n = ctx['param']['n']
    got, plain = s.ver['ver'], s.ver['plain']
    out.evals += 1

    def ch(f):
        r = s.m[f]
        if r['dec'] != 'ok':
            return True
        if r['type'] == 'bn':
            return sint(r['val']) % n != int.from_bytes(r['orig'], 'big') % n
        return s.changed(f)
    changed = [f for f in s.m if ch(f)]
    out.keys.add(('mpss', tuple(s.faults()), got, plain, bool(changed)))
    if got != plain:
        v.bad('equivalent-verifiers-disagree', 'the two-party verifier says %s, the plain verifier on the recombined values says %s' % (got, plain))
    if not changed and got != '1':
        v.bad('expected=accept|got=reject', 'an honest two-party signature was rejected')
    if len(changed) == 1 and got == '1':
        v.bad('expected=reject|got=accept', 'accepted although %s changed' % changed)


def o_shpe(s, ctx, v, out):
    if 'dec' not in s.rc:
        return
    out.evals += 1
    out.keys.add(('shpe', tuple(s.faults()), s.rc['dec'][0], s.opts.get('cls'), s.opts.get('n')))
    if not s.changed('ct'):
        if s.rc['dec'][0] != '0' or s.out.get('dec') != s.out.get('pt'):
            v.bad('roundtrip', 'decryption returned %s for plaintext %s (rc %s)' % (s.out.get('dec'), s.out.get('pt'), s.rc['dec']))


def o_match(s, ctx, v, out):
    if 'match' not in s.out:
        return
    out.evals += 1
    changed = [f for f in s.m if s.changed(f)]
    out.keys.add((s.scheme, tuple(s.faults()), s.out['match'], bool(changed)))
    if not changed and s.out['match'] != 1:
        v.bad('shares-do-not-recombine', 'honest parties: the recombined result differs from the plain computation')


SCHEMES.update({
    'etrs': Spec('C05', 5, dict(pp='ec', td3='bn', y3='bn', ry0='bn', h0='ec', pk0='ec', c00='bn', c01='bn', r00='bn', r01='bn', msg='bytes'),
                 sig_oracle(extra=etrs_extra), opts=lambda rng: dict(k=rng.below(3), n=7 if rng.chance(0.04) else 3, cls=1 if rng.chance(0.4) else 0),
                 extra_faults=[('forge', 'v_forgeext')]),
    'smlers': Spec('C05', 5, dict(pp='ec', td='bn', h0='ec', pk0='ec', sc00='bn', sc01='bn', sr00='bn', sr01='bn', tau0='ec', c00='bn',
                                  c01='bn', r00='bn', r01='bn', tau1='ec', c10='bn', msg='bytes'),
                   sig_oracle(), opts=lambda rng: dict(k=rng.below(3))),
    'cmlhs': Spec('C05', 5, dict(r='g1', s='g2', as0='g1', as1='g1', pk0='g2', pk1='g2', y0='g2', y1='g2', m='bn', z0='g2', z1='g2',
                                 sig0='g1', sig1='g1', sr0='bn', ss0='bn', sr1='bn', ss1='bn'),
                  sig_oracle(modn=('m',), vers=('ver', 'onv'),
                             # ECDSA variant: (r, n - s) is the usual equivalent signature
                             ok_malleations=(('ss0:v_negmod',), ('ss1:v_negmod',), ('ss0:v_negmod', 'ss1:v_negmod'))), pc=True, weight=6,
                  opts=lambda rng: dict(cls=rng.below(2), ord=rng.below(1 << 16))),
    'mpss': Spec('C05', 4, dict(a='g1', b0='g1', b1='g1', m0='bn', m1='bn'), o_mpss, pc=True, weight=6),
    'mpsb': Spec('C05', 4, dict(a='g1', b0='g1', b1='g1', m00='bn', m01='bn', m10='bn'), o_mpss, pc=True, weight=5,
                 opts=lambda rng: dict(k=rng.below(3), cls=rng.below(2))),
    'shpe': Spec('C06', 4, dict(ct='bn'), o_shpe, opts=lambda rng: dict(cls=rng.below(2), n=rng.choice([0, 0, 1, 2]), dup=rng.below(2)), weight=6),
    'mpcg1': Spec('C06', 5, dict(l1='bn', d1='g1'), o_match, pc=True, weight=5),
    'mpcpc': Spec('C06', 5, dict(d1='g1', e1='g2'), o_match, pc=True, weight=5),
    'mpcg2': Spec('C06', 5, dict(l1='bn', d1='g2'), o_match, pc=True, weight=3),
    'mpcgt': Spec('C06', 5, dict(l1='bn', d1='gt'), o_match, pc=True, weight=3),
})
P.KEYFIELDS = KEYFIELDS
