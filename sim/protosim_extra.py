# further protosim schemes (registered into protosim.SCHEMES)
from . import protosim as P
from .protosim import Spec, SCHEMES, sint


KEYFIELDS = {'pk', 'z', 'x', 'y', 'g', 'mpk', 'pp', 'pk0', 'pk1', 'pk2', 'y0', 'y1', 'y2', 'z0', 'z1'}


def sig_oracle(modn=(), int_msg=False, blocks=False, ok_malleations=(), extra=None, vers=('ver',)):
    """Metamorphic signature oracle with scheme-specific notions of 'the same value':
    modn     fields that are scalars of Z_r (message scalars, commitment openings): equal iff equal mod r
    int_msg  the message bytes are read as one big-endian integer mod r (no hashing)
    blocks   the message is split in l blocks, each read as an integer mod r"""

    def oracle(s, ctx, v, out):
        n = ctx['param']['n']
        if any(x not in s.ver for x in vers):
            return
        got = s.ver[vers[0]]
        und = s.undamaged_decode_failed()
        if und:
            v.bad('undamaged-decode-failed', 'field %s arrived intact but did not decode' % und)
            return
        if got == 'decode-failed':
            out.keys.add((s.scheme, 'decode-failed', tuple(s.faults())))
            return
        pre = s.opts.get('hash') == '1'

        def changed(f):
            r = s.m[f]
            if r['dec'] != 'ok':
                return True
            if f in modn and r['type'] == 'bn':
                return sint(r['val']) % n != int.from_bytes(r['orig'], 'big') % n
            if f == 'msg' and (int_msg or (pre and s.scheme in ('bbs', 'zss'))):
                a, b = r['sent'], r['orig']
                if blocks:
                    l = max(1, min(3, int(s.opts.get('k', 1))))

                    def split(m):
                        part = len(m) // l
                        return [int.from_bytes(m[i * part:(len(m) if i == l - 1 else (i + 1) * part)], 'big') % n for i in range(l)]
                    return split(a) != split(b)
                return int.from_bytes(a, 'big') % n != int.from_bytes(b, 'big') % n
            return s.changed(f)

        ch = [f for f in s.m if changed(f)]
        # a Z_r scalar sent as x + r: equivalent by the scheme's definition, but a verifier may also
        # insist on the reduced form - nothing asserted
        if any(f in modn and s.m[f]['kind'] in ('v_addord', 'v_ord') for f in s.m):
            out.probe('message-scalar-plus-order')
            return
        out.evals += 1
        out.keys.add((s.scheme, tuple(s.faults()), got, bool(ch), s.opts.get('hash'), s.opts.get('pack')))
        if 'rerandomised' in s.notes:
            out.probe('legal-malleation')
        if 'statements-swapped' in s.notes:
            ch.append('stmt')
        if any(f in KEYFIELDS for f in ch) and any(f not in KEYFIELDS for f in ch) and s.scheme not in ('pokor', 'sokor'):
            # the adversary replaced key material and signature together: the result may be a valid
            # triple under the substituted key (e.g. z := 1 with sig := identity); nothing asserted
            out.probe('key-and-signature-both-substituted')
            return
        kinds = tuple(sorted('%s:%s' % (f, s.m[f]['kind']) for f in ch if f in s.m))
        if ch and kinds in ok_malleations:
            out.probe('legal-malleation')
            if got != '1':
                v.bad('expected=accept|got=reject', 'a legal malleation was rejected')
            return
        if not ch:
            if got != '1':
                v.bad('expected=accept|got=reject', 'every field arrived with its value unchanged%s but verification failed' % (
                    ' (after a legal re-randomisation)' if 'rerandomised' in s.notes else ''))
        else:
            out.fault('altered-authenticated-field')
            if got == '1':
                v.bad('expected=reject|got=accept', 'verification accepted although %s changed in value' % ch)
        for other in vers[1:]:
            if s.ver[other] != got:
                v.bad('equivalent-verifiers-disagree', '%s says %s, %s says %s' % (vers[0], got, other, s.ver[other]))
        if extra:
            extra(s, ctx, v, out)
    return oracle


def nosub(field):
    def extra(s, ctx, v, out):
        r = s.m.get(field)
        if r and r['kind'] == 'v_nosub' and r['dec'] == 'ok' and r.get('insub') == '0':
            out.fault('public-key-outside-subgroup')
            if s.ver.get('ver') == '1':
                v.bad('%s:v_nosub|expected=reject|got=accept' % field, 'a public key outside the order-r subgroup was accepted')
    return extra


# Schemes that read the message as an integer of Z_r: a zero message (or block) leaves part of the key
# unauthenticated by the scheme's definition, so messages are random and at least 8 bytes per block.
def lopt(rng):
    return dict(k=rng.randint(1, 3), mlen=rng.choice([24, 31, 32, 33, 64, 96, 100]), mkind='rand')


def imsg(rng):
    return dict(mlen=rng.choice([8, 16, 31, 32, 33, 64, 100, 140]), mkind='rand')


RER = [('sig', 'v_rerand')]

SCHEMES.update({
    'bbs': Spec('C05', 4, dict(pk='g2', z='gt', sig='g1', msg='bytes'), sig_oracle(), pc=True,
                opts=lambda rng: dict(hash=rng.below(2), mlen=rng.choice([0, 1, 20, 31, 32, 33, 64, 100, 129]))),
    'zss': Spec('C05', 4, dict(pk='g1', z='gt', sig='g2', msg='bytes'), sig_oracle(), pc=True,
                opts=lambda rng: dict(hash=rng.below(2), mlen=rng.choice([0, 1, 20, 31, 32, 33, 64, 100, 129]))),
    'cls': Spec('C05', 4, dict(x='g2', y='g2', a='g1', b='g1', c='g1', msg='bytes'), sig_oracle(int_msg=True), pc=True,
                opts=imsg, extra_faults=RER),
    'cli': Spec('C05', 4, dict(x='g2', y='g2', z='g2', a='g1', A='g1', b='g1', B='g1', c='g1', r='bn', msg='bytes'),
                sig_oracle(int_msg=True, modn=('r',)), pc=True, opts=imsg),
    'clb': Spec('C05', 4, dict(x='g2', y='g2', a='g1', b='g1', c='g1', msg='bytes'),
                sig_oracle(int_msg=True, blocks=True), pc=True, opts=lopt,
                extra_faults=[('z0', 'v_dbl'), ('A0', 'v_rand'), ('B0', 'flip'), ('z0', 'flip'), ('A1', 'v_neg'), ('B1', 'v_dbl')]),
    'pss': Spec('C05', 4, dict(g='g2', x='g2', y='g2', a='g1', b='g1', m='bn'), sig_oracle(modn=('m',)), pc=True,
                opts=imsg, extra_faults=RER),
    'psb': Spec('C05', 4, dict(g='g2', x='g2', y0='g2', a='g1', b='g1', m0='bn'), sig_oracle(modn=('m0', 'm1', 'm2')), pc=True,
                opts=lambda rng: dict(k=rng.randint(1, 3))),
    'vbnn': Spec('C05', 5, dict(mpk='ec', R='ec', z='bn', h='bn', id='bytes', msg='bytes'), sig_oracle()),
    'pokdl': Spec('C05', 4, dict(y='ec', c='bn', r='bn'), sig_oracle(), weight=6),
    'sokdl': Spec('C05', 4, dict(y='ec', c='bn', r='bn', msg='bytes'), sig_oracle(), weight=6),
    'pokor': Spec('C05', 4, dict(y0='ec', y1='ec', c0='bn', c1='bn', r0='bn', r1='bn'), sig_oracle(), weight=6,
                  opts=lambda rng: dict(cls=rng.below(2)), extra_faults=[('stmt', 'v_swap')]),
    'sokor': Spec('C05', 4, dict(y0='ec', y1='ec', c0='bn', c1='bn', r0='bn', r1='bn', msg='bytes'), sig_oracle(), weight=6,
                  opts=lambda rng: dict(cls=rng.below(2)), extra_faults=[('stmt', 'v_swap')]),
    'ers': Spec('C05', 5, dict(pp='ec', td='bn', h0='ec', pk0='ec', c00='bn', c01='bn', r00='bn', r01='bn', pk1='ec', c10='bn',
                               r11='bn', msg='bytes'), sig_oracle(),
                opts=lambda rng: dict(k=rng.randint(1, 3))),
    'mklhs': Spec('C05', 5, dict(pk0='g2', pk1='g2', sig='g1', m='bn', mu0='bn', mu1='bn'),
                  sig_oracle(modn=('m', 'mu0', 'mu1'), vers=('ver', 'onv')), pc=True,
                  opts=lambda rng: dict(ord=rng.below(1 << 16))),
})
