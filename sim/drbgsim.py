# drbgsim: generate/reseed call histories vs. an SP 800-90A Hash_DRBG model (DESIGN.md 3.5)
import hashlib

from .core import Outcome, Rng

NAME = 'drbgsim'
TIMEOUT = 60.0
SEEDLEN = 55
MOD = 1 << (8 * SEEDLEN)
MAXREQ = 1 << 16
BOOT_SEED = bytes([0xA5]) * 64

GEN_LENS = [0, 1, 31, 32, 33, 54, 55, 56, 63, 64, 65, 255, 256, 257, 1000, 4096]
GEN_BIG = [65535, 65536, 65537, 70000]
SEED_LENS = [1, 2, 16, 32, 48, 55, 56, 63, 64, 65, 111, 128, 256]
BITS = [0, 1, 2, 7, 8, 63, 64, 65, 127, 128, 129, 255, 256, 257, 512, 1000, 1023, 1024, 1088, 1152]


# ----------------------------------------------------------------------------- reference model

def hash_df(data, n):
    out = b''
    c = 1
    while len(out) < n:
        out += hashlib.sha256(bytes([c]) + (8 * n).to_bytes(4, 'big') + data).digest()
        c += 1
    return out[:n]


class Drbg:
    """Hash_DRBG, SHA-256, seedlen 440, no prediction resistance, no additional input
    (SP 800-90A rev.1 section 10.1.1), written from the standard."""

    def __init__(self):
        self.V = None
        self.C = None
        self.ctr = 0

    def known(self):
        return self.V is not None

    def instantiate(self, seed):
        self.V = hash_df(seed, SEEDLEN)
        self.C = hash_df(b'\x00' + self.V, SEEDLEN)
        self.ctr = 1

    def reseed(self, entropy):
        self.V = hash_df(b'\x01' + self.V + entropy, SEEDLEN)
        self.C = hash_df(b'\x00' + self.V, SEEDLEN)
        self.ctr = 1

    def generate(self, n):
        data = int.from_bytes(self.V, 'big')
        out = bytearray()
        while len(out) < n:
            out += hashlib.sha256(data.to_bytes(SEEDLEN, 'big')).digest()
            data = (data + 1) % MOD
        h = hashlib.sha256(b'\x03' + self.V).digest()
        v = int.from_bytes(self.V, 'big')
        low = (v & ((1 << 256) - 1)) + int.from_bytes(h, 'big')
        probes = {}
        if low >> 256:
            probes['carry-out-of-low-32-bytes'] = 1
            if self.V[SEEDLEN - 33] == 0xFF:
                probes['carry-chain>=2-bytes-above-H'] = 1
        if v + int.from_bytes(self.C, 'big') >= MOD:
            probes['V+C-wraps-2^440'] = 1
        v = (v + int.from_bytes(h, 'big') + int.from_bytes(self.C, 'big') + self.ctr) % MOD
        self.V = v.to_bytes(SEEDLEN, 'big')
        self.ctr += 1
        return bytes(out[:n]), probes

    def copy(self):
        d = Drbg()
        d.V, d.C, d.ctr = self.V, self.C, self.ctr
        return d

    def key(self):
        return (self.V, self.C, self.ctr)


def dev_stream(data, n_from, n):
    """Bytes n_from..n_from+n of what the simulated device delivers: the plan's entropy, then the
    SplitMix64 continuation keyed 99 (one word per byte, low 8 bits), as in exec/simcommon.h."""
    out = bytearray()
    r = Rng(99)
    extra = []
    need = max(0, n_from + n - len(data))
    for _ in range(need):
        extra.append(r.u64() & 0xFF)
    full = data + bytes(extra)
    return bytes(full[n_from:n_from + n])


# ----------------------------------------------------------------------------- plans

# Seeds (found by an offline search over 2^21..2^23 candidates each) whose instantiated V is within 2000 of a wrap of
# its low 32 bits (the last two: of its low 24 bits): a long request right after such a seed carries out of the low
# word of the block counter inside the output loop - an event of probability 2^-21 per maximal request otherwise.
WRAP_SEEDS = [
    '010101010101010100000000001f527f',
    '02020202020202020202020202020202020202020202020200000000000e6dd6',
    '0404040404040404040404040404040404040404040404040404040404040404040404040404040404040404040404040404040404040404000000000014bc8b',
    '07070707070707070707070707070707000000000012b21c',
    '080808080808080808080808080808080808080808080808080808080808080800000000002a3c67',
    '05050505050505050000000000000c2c',
    '0606060606060606060606060606060606060606060606060000000000000288',
]

def _carry_seed(rng, ln):
    """Searches a seed whose instantiated V has 0xFF just above the low 32 bytes, so that the
    first generates exercise multi-byte carry propagation into the upper part of V."""
    best = None
    for _ in range(400):
        s = rng.bytes(ln)
        V = hash_df(s, SEEDLEN)
        if V[SEEDLEN - 33] == 0xFF:
            return s
        if best is None:
            best = s
    return best


def gen_plan(rng, tier, config, opts):
    lines = ['relic-sim-plan 1', 'engine drbgsim', 'config ' + config]
    nops = rng.choice([1, 2, 3, 4, 6, 8, 12, 16, 24, 32, 48, 64])
    profile = rng.weighted([('mixed', 50), ('genheavy', 20), ('bn', 15), ('device', 15)])
    start = rng.weighted([('seed', 55), ('init', 25), ('boot', 20)])
    if profile == 'device':
        start = 'init'

    def dev_line():
        ent = rng.bytes(rng.choice([64, 64, 100, 200, 40, 0]))
        nch = rng.choice([0, 0, 1, 2, 4, 8, 20])
        ch = []
        for _ in range(nch):
            ch.append(rng.weighted([(1, 10), (rng.randint(2, 63), 30), (64, 5), (0, 6), (-1, 3), (-2, 1), (200, 3)]))
        ln = 'DEV %s chunks=%s' % (ent.hex() or '-', ','.join(str(c) for c in ch) if ch else '64')
        if rng.chance(0.04):
            ln += ' openfail'
        return ln

    def seed_hex():
        ln = rng.choice(SEED_LENS)
        if rng.chance(0.25):
            return _carry_seed(rng, ln).hex()
        return rng.bytes(ln).hex()

    if start == 'seed' and rng.chance(0.08):
        # the block counter of the output loop wraps its low word during the first (long) request
        lines.append('SEED ' + rng.choice(WRAP_SEEDS))
        lines.append('GEN %d' % rng.choice([65536, 65536, 65535, 60000]))
    elif start == 'seed':
        lines.append('SEED ' + seed_hex())
    elif start == 'init':
        lines.append(dev_line())
        lines.append('INIT')
    if rng.chance(0.4):
        lines.append('CTXFILL %d' % rng.choice([0xA5, 0xFF, 1, 0x5A, rng.randint(1, 255)]))   # what the second context's storage holds before its first use
    long_used = False
    for _ in range(nops):
        if profile == 'genheavy':
            op = rng.weighted([('GEN', 70), ('RESEED', 15), ('SEED', 5), ('SNAP', 5), ('RESTORE', 5)])
        elif profile == 'bn':
            op = rng.weighted([('BNRAND', 35), ('BNRANDMOD', 35), ('GEN', 10), ('RESEED', 8), ('SNAP', 6), ('RESTORE', 6)])
        elif profile == 'device':
            op = rng.weighted([('INIT', 30), ('GEN', 40), ('CTX', 10), ('BNRANDMOD', 10), ('RESEED', 10)])
        else:
            op = rng.weighted([('GEN', 40), ('RESEED', 12), ('SEED', 6), ('BNRAND', 10), ('BNRANDMOD', 10), ('CTX', 6),
                               ('SNAP', 5), ('RESTORE', 5), ('INIT', 4), ('GENLOOP', 2)])
        if op == 'GEN':
            bare = ' bare' if rng.chance(0.3) else ''      # a caller without a protected block around the request
            if rng.chance(0.04):
                lines.append('GEN %d%s' % (rng.choice(GEN_BIG), bare))
            elif rng.chance(0.2):
                lines.append('GEN %d%s' % (rng.randint(0, 300), bare))
            else:
                lines.append('GEN %d%s' % (rng.choice(GEN_LENS), bare))
        elif op == 'GENLOOP':
            if not long_used and rng.chance(0.15 if tier == 'quick' else 0.4):
                long_used = True
                lines.append('GENLOOP %d %d' % (rng.choice([33000, 40000, 66000]), rng.choice([0, 1, 32])))
            else:
                lines.append('GENLOOP %d %d' % (rng.randint(2, 300), rng.choice([0, 1, 8, 32, 33, 64])))
        elif op == 'RESEED':
            if rng.chance(0.03):
                lines.append('RESEED -')
            else:
                lines.append('RESEED ' + rng.bytes(rng.choice(SEED_LENS)).hex())
        elif op == 'SEED':
            if rng.chance(0.03):
                lines.append('SEED -')
            else:
                lines.append('SEED ' + seed_hex())
        elif op == 'BNRAND':
            bits = rng.choice(BITS) if rng.chance(0.7) else rng.randint(0, 1152)
            lines.append('BNRAND %d %d' % (bits, rng.below(2)))
            if rng.chance(0.2):
                # determinism: same state, same call
                s = rng.below(4)
                lines[-1:] = ['SNAP %d' % s, lines[-1], 'RESTORE %d' % s, lines[-1]]
        elif op == 'BNRANDMOD':
            kind = rng.below(7)
            if kind == 0:
                b = rng.choice([2, 3, 4, 5, 255, 256, 257, 1, 1])      # [1, 1) is empty: no value exists, the call must say so (and return)
            elif kind == 1:
                k = rng.randint(2, 1023)
                b = (1 << k) + rng.choice([-1, 0, 1])
            elif kind == 2:
                b = rng.below(1 << 64) | 1
            elif kind == 3:
                b = (1 << 1024) - 1 - rng.below(1 << 20)
            elif kind == 4:
                # group orders (secp256k1, P-256, BN-P256)
                b = rng.choice([0xFFFFFFFFFFFFFFFFFFFFFFFFFFFFFFFEBAAEDCE6AF48A03BBFD25E8CD0364141,
                                0xFFFFFFFF00000000FFFFFFFFFFFFFFFFBCE6FAADA7179E84F3B9CAC2FC632551,
                                0x2523648240000001BA344D8000000007FF9F800000000010A10000000000000D])
            else:
                b = rng.below(1 << rng.randint(2, 1024)) + 2
            lines.append('BNRANDMOD %x' % b if len('%x' % b) % 2 == 0 else 'BNRANDMOD 0%x' % b)
            if rng.chance(0.2):
                # same state, same call - the second time in place (the result object is the bound object) in half of the cases
                s = rng.below(4)
                lines[-1:] = ['SNAP %d' % s, lines[-1], 'RESTORE %d' % s, lines[-1] + (' alias' if rng.chance(0.5) else '')]
            elif rng.chance(0.15):
                lines[-1] += ' alias'
        elif op == 'CTX':
            if rng.chance(0.5):
                lines.append(dev_line().replace(' openfail', ''))
            lines.append('CTX %d' % rng.below(2))
        elif op == 'SNAP':
            lines.append('SNAP %d' % rng.below(4))
        elif op == 'RESTORE':
            lines.append('RESTORE %d' % rng.below(4))
        elif op == 'INIT':
            lines.append(dev_line())
            lines.append('INIT')
    return '\n'.join(lines) + '\n'


# ----------------------------------------------------------------------------- oracle

class Bad(Exception):
    def __init__(self, cls, msg):
        self.cls = cls
        self.msg = msg


def kv(fields):
    d = {}
    for f in fields:
        if '=' in f:
            k, v = f.split('=', 1)
            d[k] = v
    return d


def unhex(s):
    return b'' if s == '-' else bytes.fromhex(s)


def check(plan, transcript, config, opts):
    out = Outcome()
    ops = [ln.split() for ln in plan.split('\n') if ln and ln.split()[0] in
           ('DEV', 'INIT', 'SEED', 'RESEED', 'GEN', 'GENLOOP', 'BNRAND', 'BNRANDMOD', 'CTX', 'SNAP', 'RESTORE')]
    tr = [ln.split(' ') for ln in transcript.split('\n') if ln]
    pos = 0
    models = [Drbg(), Drbg()]
    models[0].instantiate(BOOT_SEED)
    ready = [True, False]
    cur = 0
    slots = [None] * 4
    dev = dict(data=BOOT_SEED, pos=64, chunks=[], cpos=0, openfail=False, seen=64, pos0=64)
    detmap = {}
    prev_op = 'start'

    def next_line():
        nonlocal pos
        if pos >= len(tr):
            raise Bad('transcript', 'transcript ended early')
        pos += 1
        return tr[pos - 1]

    def consume_rbs(opname, terminal):
        """Reads RB records up to the op's terminal line, advancing the model."""
        nonlocal pos
        nrb = 0
        while True:
            ln = next_line()
            if ln[0] == 'RB':
                n = int(ln[1])
                m = models[cur]
                if m.known():
                    exp, probes = m.generate(n)
                    out.evals += 1
                    for k in probes:
                        out.probe(k)
                    got = unhex(ln[2])
                    if got != exp:
                        i = next((j for j in range(min(len(got), len(exp))) if got[j] != exp[j]), min(len(got), len(exp)))
                        raise Bad('stream', '%s: generate request #%d of %d bytes differs from Hash_DRBG at byte %d '
                                  '(relic %s.., model %s..; reseed_counter=%d)' %
                                  (opname, nrb, n, i, got[i:i + 8].hex(), exp[i:i + 8].hex(), m.ctr - 1))
                    out.keys.add((prev_op, opname, min(n, 70) if n < 70 else (n // 1000 + 100), tuple(sorted(probes))))
                nrb += 1
                continue
            if ln[0] != terminal:
                raise Bad('transcript', 'expected %s, got %s' % (terminal, ' '.join(ln)[:80]))
            return ln, nrb

    def device_init(line, what):
        """Model of rand_init reading the simulated device; returns expected (rc, seed)."""
        f = kv(line)
        if dev.get('desync'):
            return 3, None
        if dev['openfail']:
            dev['openfail'] = False
            out.fault('device-open-fails')
            return 1, None
        got = 0
        buf = b''
        while got < 64:
            want = 64 - got
            if dev['cpos'] < len(dev['chunks']):
                c = dev['chunks'][dev['cpos']]
                dev['cpos'] += 1
                if c < 0:
                    out.fault('device-read-error')
                    return 2, buf       # an error, or (after a retry) success with exactly 64 bytes delivered in order
                if c == 0:
                    out.fault('device-zero-length-read')
                    continue
                if c < want:
                    want = c
                    out.fault('device-short-read')
            buf += dev_stream(dev['data'], dev['pos'], want)
            dev['pos'] += want
            got += want
        return 0, buf

    try:
        for op in ops:
            name = op[0]
            m = models[cur]
            if name == 'DEV':
                ln = next_line()
                dev = dict(data=unhex(op[1]), pos=0, chunks=[int(c) for c in kv(op).get('chunks', '').split(',') if c],
                           cpos=0, openfail='openfail' in op, seen=0, pos0=0)
            elif name == 'INIT' or (name == 'CTX' and not ready[int(op[1]) % 2]):
                if name == 'CTX':
                    cur = int(op[1]) % 2
                    m = models[cur]
                    out.fault('context-switch')
                ln = next_line()
                f = kv(ln)
                ready[cur] = True
                erc, seed = device_init(ln, name)
                out.evals += 1
                rc = int(f['rc'])
                got_bytes = unhex(f['delivered'])
                delta = got_bytes[dev.get('seen', 0):]
                dev['seen'] = len(got_bytes)
                if erc == 2 and rc == 0:
                    # the library retried after the read error: legal only if it consumed exactly 64 bytes in
                    # order and the stream is that of those bytes (checked by the following requests)
                    out.probe('read-error-retried')
                    if len(delta) != 64:
                        raise Bad('device', '%s: after a read error the library reported success but consumed %d bytes instead of 64' % (name, len(delta)))
                    m.instantiate(delta)
                    # resynchronise the device model with what the stub delivered
                    dev['desync'] = True    # the model no longer knows which chunk directive comes next
                elif erc == 3:
                    if rc == 0:
                        if len(delta) != 64:
                            raise Bad('device', '%s: initialisation succeeded but consumed %d bytes instead of 64' % (name, len(delta)))
                        m.instantiate(delta)
                    else:
                        m.V = None
                elif erc in (1, 2):
                    if rc != 1:
                        raise Bad('device', '%s: the device failed (open/read error) but initialisation reported success' % name)
                    m.V = None
                else:
                    if rc != 0:
                        raise Bad('device', '%s: initialisation failed although the device delivered 64 bytes '
                                  '(short/zero-length reads only)' % name)
                    if unhex(f['delivered'])[-64:] != seed:
                        raise Bad('device', '%s: device stub delivered unexpected bytes' % name)
                    m.instantiate(seed)
                out.keys.add(('init', rc, len(dev['chunks']) > 0))
            elif name == 'CTX':
                cur = int(op[1]) % 2
                out.fault('context-switch')
                next_line()
            elif name in ('SEED', 'RESEED'):
                ln = next_line()
                f = kv(ln)
                data = unhex(op[1])
                out.evals += 1
                if len(data) == 0:
                    if f['thrown'] != '1':
                        raise Bad('error', '%s with empty input was not refused' % name)
                    if name == 'SEED':
                        m.V = None      # cleaned and not seeded: nothing is promised until the next SEED
                else:
                    if f['thrown'] != '0' or f['code'] != '0':
                        raise Bad('error', '%s of %d bytes reported an error' % (name, len(data)))
                    if name == 'SEED':
                        m.instantiate(data)
                    elif m.known():
                        m.reseed(data)
                        out.probe('reseed-between-generates', 1 if prev_op in ('GEN', 'BNRAND', 'BNRANDMOD', 'GENLOOP') else 0)
                out.keys.add((name, len(data)))
            elif name == 'GEN':
                n = int(op[1])
                if n > MAXREQ:
                    bare = len(op) > 2 and op[2] == 'bare'
                    ln = next_line()
                    if ln[0] == 'RB' and bare:
                        # without a protected block the refused call returns to the observation wrapper, which
                        # logs it; whether it was served is decided by the buffer and the state (next requests)
                        ln = next_line()
                    if ln[0] == 'RB':
                        raise Bad('limit', 'a request of %d bytes (above the 65536-byte limit) was served' % n)
                    f = kv(ln)
                    out.evals += 1
                    out.fault('request-above-limit')
                    if (f['code'] != '1' if bare else f['thrown'] != '1') or f['canary'] != '1' or f['untouched'] != '1':
                        raise Bad('limit', 'a request of %d bytes was not refused cleanly (%s)' % (n, ' '.join(ln)))
                else:
                    ln, nrb = consume_rbs('GEN', 'GEN')
                    f = kv(ln)
                    out.evals += 1
                    if nrb != 1 or f['thrown'] != '0' or f['code'] != '0':
                        raise Bad('error', 'request of %d bytes: %s (records=%d)' % (n, ' '.join(ln), nrb))
                    if f['canary'] != '1':
                        raise Bad('limit', 'request of %d bytes wrote outside the caller buffer' % n)
            elif name == 'GENLOOP':
                cnt, n = int(op[1]), min(int(op[2]), 4096)
                if m.known():
                    for _ in range(max(0, cnt - 1)):
                        _, probes = m.generate(n)
                        for k in probes:
                            out.probe(k)
                    if cnt >= 32768:
                        out.probe('reseed_counter>=2^15')
                ln, nrb = consume_rbs('GENLOOP', 'GENLOOP')
                out.evals += 1
            elif name == 'BNRAND':
                bits, sign = int(op[1]), int(op[2])
                key = ('BNRAND', bits, sign, m.key()) if m.known() else None
                ln, nrb = consume_rbs('BNRAND', 'BNRAND')
                f = kv(ln)
                val = int.from_bytes(unhex(ln[-1]), 'big')
                end = next_line()
                out.evals += 1
                if kv(end)['thrown'] != '0':
                    raise Bad('error', 'bn_rand(%d bits) threw' % bits)
                if val.bit_length() > bits:
                    raise Bad('range', 'bn_rand asked for %d bits returned %d bits' % (bits, val.bit_length()))
                if val != 0 and int(f['sign']) != sign:
                    raise Bad('range', 'bn_rand returned the wrong sign')
                if key:
                    if key in detmap:
                        out.probe('same-state-same-call')
                        if detmap[key] != val:
                            raise Bad('determinism', 'bn_rand gave two different values from the same generator state')
                    detmap[key] = val
                out.keys.add(('bnrand', bits if bits in BITS else bits % 64, sign))
            elif name == 'BNRANDMOD':
                bound = int(op[1], 16)
                key = ('BNRANDMOD', bound, m.key()) if m.known() else None
                if bound < 2:
                    # no integer lies in [1, bound): an error must be reported, whatever the generator was asked for meanwhile
                    try:
                        ln, nrb = consume_rbs('BNRANDMOD', 'BNRANDMOD-END')
                    except Bad as b_:
                        if b_.cls == 'transcript':
                            raise Bad('range', 'bn_rand_mod(bound=%x) returned a value although [1, bound) is empty' % bound)
                        raise
                    out.evals += 1
                    out.probe('bn_rand_mod-empty-range')
                    if kv(ln)['thrown'] == '0' and kv(ln)['code'] == '0':
                        raise Bad('range', 'bn_rand_mod(bound=%x) returned a value although [1, bound) is empty' % bound)
                    prev_op = name
                    continue
                ln, nrb = consume_rbs('BNRANDMOD', 'BNRANDMOD')
                f = kv(ln)
                val = int.from_bytes(unhex(ln[-1]), 'big')
                end = next_line()
                out.evals += 1
                if kv(end)['thrown'] != '0':
                    raise Bad('error', 'bn_rand_mod threw')
                if not (1 <= val < bound) or f['sign'] != '0':
                    raise Bad('range', 'bn_rand_mod(bound=%x) returned %s%x, outside [1, bound)' %
                              (bound, '-' if f['sign'] == '1' else '', val))
                if nrb > 1:
                    out.probe('bn_rand_mod-resampled')
                if key:
                    if key in detmap:
                        out.probe('same-state-same-call')
                        if detmap[key] != val:
                            raise Bad('determinism', 'bn_rand_mod gave two different values from the same generator state')
                    detmap[key] = val
                out.keys.add(('bnrandmod', bound.bit_length(), nrb > 1, len(op) > 2))
                if len(op) > 2:
                    out.probe('bn_rand_mod-in-place')
            elif name == 'SNAP':
                next_line()
                slots[int(op[1]) % 4] = m.copy()
            elif name == 'RESTORE':
                ln = next_line()
                s = slots[int(op[1]) % 4]
                if (s is None) != (ln[2] == 'none'):
                    raise Bad('transcript', 'snapshot bookkeeping differs')
                if s is not None:
                    models[cur] = s.copy()
            prev_op = name
        if pos != len(tr):
            raise Bad('transcript', 'unexpected trailing records: ' + ' '.join(tr[pos])[:80])
    except Bad as b:
        out.violate('C15', 'C15|%s|%s' % (name if b.cls != 'transcript' else 'harness', b.cls), b.msg)
    out.sim_time = len(tr)
    return out


def simplify_line(line):
    f = line.split()
    if f[0] == 'GEN' and int(f[1]) > 32:
        return ['GEN 32', 'GEN 1']
    if f[0] in ('SEED', 'RESEED') and len(f[1]) > 2:
        return ['%s %s' % (f[0], f[1][:2])]
    if f[0] == 'GENLOOP' and int(f[1]) > 2:
        return ['GENLOOP %d %s' % (int(f[1]) // 2, f[2])]
    return []
