# errsim: generated try/throw programs against an abstract exception semantics (DESIGN.md 3.6.1)
import zlib

from .core import Outcome

NAME = 'errsim'
TIMEOUT = 30.0
NCTX = 3
ERRS = list(range(1, 11))       # ERR_NO_MEMORY .. ERR_NO_RAND (ERR_CAUGHT = 0 is the rethrow marker)
SHRINK_LINES = True


def crash_prop(plan, prop):
    """A crash while an allocation failure is being injected into a library call is the
    fault_sequences clause of C08 (enumerated by allocsim), not a statement about C19."""
    import re
    if re.search(r'\(L \d+ [67] ', plan):
        return 'C08'
    return prop


# ----------------------------------------------------------------------------- trees
# node = [kind, id, args..., seqs...]; seq = list of nodes

def _gen_seq(rng, st, depth, wstack, maxlen):
    n = rng.randint(0, maxlen)
    out = []
    for _ in range(n):
        if st['budget'] <= 0:
            break
        out.append(_gen_node(rng, st, depth, wstack))
    return out


def _gen_node(rng, st, depth, wstack):
    st['budget'] -= 1
    st['id'] += 1
    nid = st['id']
    choices = [('E', 18), ('T', 14), ('R', 5), ('G', 8), ('M', 3), ('L', st['wl']), ('K', 3)]
    if depth < st['maxdepth'] and st['budget'] > 2:
        choices += [('A', 12), ('a', 6), ('S', 8), ('s', 4), ('C', 6)]
        if len(wstack) < NCTX:
            choices.append(('W', 5))
    k = rng.weighted(choices)
    if k == 'T':
        return ['T', nid, rng.choice(ERRS)]
    if k == 'L':
        # kind 4 (precision overflow in bn_lsh) only throws with static allocation
        kinds = [0, 1, 2, 3, 5]
        if st['alloc']:
            kinds += [6, 6, 7, 7]
        else:
            kinds.append(4)
        kind = rng.choice(kinds)
        return ['L', nid, kind, rng.below(100000)]
    if k == 'K':
        # kinds 0..3: plain calls; >= 4: scalar multiplication variant (low 4 bits) with an edge-case scalar class
        if rng.chance(0.5):
            return ['K', nid, rng.below(4)]
        return ['K', nid, 16 * rng.below(8) + 4 + rng.below(12)]
    if k in ('A', 'S'):
        return [k, nid, _gen_seq(rng, st, depth + 1, wstack, 4), _gen_seq(rng, st, depth + 1, wstack, 3),
                _gen_seq(rng, st, depth + 1, wstack, 3)]
    if k in ('a', 's'):
        return [k, nid, _gen_seq(rng, st, depth + 1, wstack, 4), _gen_seq(rng, st, depth + 1, wstack, 3)]
    if k == 'C':
        return ['C', nid, rng.below(64), _gen_seq(rng, st, depth + 1, wstack, 4)]
    if k == 'W':
        free = [c for c in range(NCTX) if c not in wstack]
        to = rng.choice(free)
        return ['W', nid, to, _gen_seq(rng, st, depth + 1, wstack + [to], 4)]
    return [k, nid]


def fmt_node(n):
    k = n[0]
    if k in ('A', 'S'):
        return '(%s %d %s %s %s)' % (k, n[1], fmt_seq(n[2]), fmt_seq(n[3]), fmt_seq(n[4]))
    if k in ('a', 's'):
        return '(%s %d %s %s)' % (k, n[1], fmt_seq(n[2]), fmt_seq(n[3]))
    if k in ('C', 'W'):
        return '(%s %d %d %s)' % (k, n[1], n[2], fmt_seq(n[3]))
    if k == 'T':
        return '(T %d %d)' % (n[1], n[2])
    if k == 'L':
        return '(L %d %d %d)' % (n[1], n[2], n[3])
    if k == 'K':
        return '(K %d %d)' % (n[1], n[2])
    return '(%s %d)' % (k, n[1])


def fmt_seq(s):
    return '(' + ' '.join(fmt_node(n) for n in s) + ')'


def parse_seq(text):
    toks = text.replace('(', ' ( ').replace(')', ' ) ').split()
    pos = [0]

    def seq():
        assert toks[pos[0]] == '('
        pos[0] += 1
        out = []
        while toks[pos[0]] != ')':
            out.append(node())
        pos[0] += 1
        return out

    def node():
        assert toks[pos[0]] == '('
        pos[0] += 1
        k = toks[pos[0]]
        nid = int(toks[pos[0] + 1])
        pos[0] += 2
        n = [k, nid]
        if k in ('A', 'S'):
            n += [seq(), seq(), seq()]
        elif k in ('a', 's'):
            n += [seq(), seq()]
        elif k in ('C', 'W'):
            n.append(int(toks[pos[0]]))
            pos[0] += 1
            n.append(seq())
        elif k == 'T' or k == 'K':
            n.append(int(toks[pos[0]]))
            pos[0] += 1
        elif k == 'L':
            n += [int(toks[pos[0]]), int(toks[pos[0] + 1])]
            pos[0] += 2
        assert toks[pos[0]] == ')'
        pos[0] += 1
        return n

    return seq()


def gen_plan(rng, tier, config, opts):
    st = dict(budget=rng.choice([6, 12, 25, 40, 60]), id=0, maxdepth=rng.choice([2, 3, 5, 8]),
              alloc=(config == 'D'), wl=rng.choice([0, 4, 8]) if config != 'D' else rng.choice([6, 14]))
    lines = ['relic-sim-plan 1', 'engine errsim', 'config ' + config]
    nprog = rng.choice([1, 1, 2, 3])
    for _ in range(nprog):
        seq = []
        while st['budget'] > 0 and len(seq) < 8:
            seq.append(_gen_node(rng, st, 0, [0]))
        if not seq:
            st['id'] += 1
            seq = [['E', st['id']]]
        lines.append('PROG ' + fmt_seq(seq))
        st['budget'] = rng.choice([6, 12, 25])
    return '\n'.join(lines) + '\n'


# ----------------------------------------------------------------------------- model

class Thrown(Exception):
    pass


class Mismatch(Exception):
    def __init__(self, pos, expected, got):
        self.pos = pos
        self.expected = expected
        self.got = got


class Model:
    """The abstract exception semantics of the C19 statement, run against the actual event
    stream.  fin_first selects the (unspecified) relative order of finaliser and handler."""

    def __init__(self, actual, fin_first=True):
        self.actual = actual
        self.i = 0
        self.fin_first = fin_first
        self.depth = [0] * NCTX
        self.slot = [False] * NCTX
        self.code = [False] * NCTX
        self.cur = 0
        self.stats = dict(throws=0, transfers=0, outside=0, blocks=0, handlers=0, fins=0, getcode=0,
                          libthrow=0, allocthrow=0, ctxsw=0, maxdepth=0, fin_throw=0, hnd_throw=0,
                          try_in_fin=0, caught_in_fin=0)
        self.keys = set()
        self.region = []        # stack of 'b'/'h'/'f' for probes

    def chain(self):
        c = self.cur
        return 'E' if self.depth[c] > 0 else ('S' if self.slot[c] else 'N')

    def ev(self, *fields):
        exp = ' '.join(str(f) for f in fields)
        got = self.actual[self.i] if self.i < len(self.actual) else '<end>'
        # the error number given to RLC_CATCH(e) is not asserted
        g = got
        if exp.startswith('h ') and ' e=' in got:
            g = got[:got.index(' e=')]
        if g != exp:
            raise Mismatch(self.i, exp, got)
        self.i += 1

    def peek(self):
        return self.actual[self.i] if self.i < len(self.actual) else '<end>'

    def throw(self):
        c = self.cur
        self.code[c] = True
        self.stats['throws'] += 1
        if self.region:
            if self.region[-1] == 'f':
                self.stats['fin_throw'] += 1
            elif self.region[-1] == 'h':
                self.stats['hnd_throw'] += 1
        if self.depth[c] > 0:
            self.stats['transfers'] += 1
            raise Thrown()
        self.stats['outside'] += 1
        self.slot[c] = True

    def seq(self, s):
        for n in s:
            self.node(n)

    def node(self, n):
        k, nid = n[0], n[1]
        c = self.cur
        if k == 'E':
            self.ev('e', nid)
        elif k in ('T', 'R'):
            self.ev('t', nid)
            self.keys.add(('throw', k, min(self.depth[c], 4), tuple(self.region[-2:])))
            self.throw()
            self.ev('c', nid, self.chain())
        elif k == 'G':
            self.stats['getcode'] += 1
            self.ev('g', nid, 1 if self.code[c] else 0)
            self.code[c] = False
        elif k == 'M':
            if self.depth[c] == 0 and self.slot[c]:
                self.slot[c] = False
                self.ev('m', nid, 'N')
            else:
                self.ev('m', nid, 'skipped')
        elif k == 'K':
            self.ev('l', nid)
            self.ev('k', nid, self.chain(), 'code=%d' % (1 if self.code[c] else 0), 'fired=0')
        elif k == 'L':
            self.ev('l', nid)
            kind = n[2]
            self.keys.add(('lib', kind, min(self.depth[c], 4), tuple(self.region[-2:])))
            if kind <= 5:
                self.stats['libthrow'] += 1
                self.throw()
                self.ev('k', nid, self.chain(), 'code=1', 'fired=0')
            else:
                # injected allocation failure: whether the library signalled it is observed, not assumed
                got = self.peek()
                if got.startswith('k %d ' % nid):
                    f = got.split()
                    code = f[3] == 'code=1'
                    if self.depth[c] > 0:
                        # returned normally inside a block: no throw took place (C19 does not
                        # promise that every allocation failure is signalled)
                        if code != self.code[c] and not code:
                            raise Mismatch(self.i, 'k %d code stays set' % nid, got)
                        if f[2] != 'E':
                            raise Mismatch(self.i, 'k %d E ...' % nid, got)
                        self.code[c] = code
                    else:
                        if f[2] not in ('S', 'N') or (self.slot[c] and f[2] == 'N'):
                            raise Mismatch(self.i, 'k %d %s ...' % (nid, self.chain()), got)
                        if self.code[c] and not code:
                            raise Mismatch(self.i, 'k %d code stays set' % nid, got)
                        if f[2] == 'S' and not self.slot[c]:
                            self.stats['allocthrow'] += 1
                            self.stats['outside'] += 1
                            if not code:
                                raise Mismatch(self.i, 'k %d S code=1' % nid, got)
                        self.slot[c] = f[2] == 'S'
                        self.code[c] = code
                    self.i += 1
                else:
                    self.stats['allocthrow'] += 1
                    self.throw()    # must transfer; if depth == 0 the next ev() reports the mismatch
                    self.ev('k', nid, self.chain(), 'code=1', 'fired=?')
        elif k == 'C':
            self.seq(n[3])
        elif k == 'W':
            back = self.cur
            self.cur = n[2]
            self.stats['ctxsw'] += 1
            self.ev('w', nid, n[2], self.chain())
            self.seq(n[3])
            self.cur = back
            self.ev('v', nid, back, self.chain())
        elif k in ('A', 'a', 'S', 's'):
            has_fin = k in ('A', 'S')
            body, hnd = n[2], n[3]
            fin = n[4] if has_fin else []
            self.stats['blocks'] += 1
            if self.region and self.region[-1] == 'f':
                self.stats['try_in_fin'] += 1
            self.depth[c] += 1
            self.stats['maxdepth'] = max(self.stats['maxdepth'], self.depth[c])
            self.ev('b', nid)
            caught = False
            self.region.append('b')
            try:
                self.seq(body)
                self.ev('z', nid)
            except Thrown:
                caught = True
            finally:
                self.region.pop()
            self.depth[c] -= 1
            if caught and self.region and self.region[-1] == 'f':
                self.stats['caught_in_fin'] += 1
            self.keys.add(('block', k, caught, min(self.depth[c], 4), tuple(self.region[-2:])))

            def run_fin():
                if has_fin:
                    self.stats['fins'] += 1
                    self.ev('f', nid, self.chain())
                    self.region.append('f')
                    try:
                        self.seq(fin)
                    finally:
                        self.region.pop()

            def run_hnd():
                if caught:
                    self.stats['handlers'] += 1
                    self.ev('h', nid, self.chain())
                    self.region.append('h')
                    try:
                        self.seq(hnd)
                    finally:
                        self.region.pop()

            if self.fin_first:
                run_fin()
                run_hnd()
            else:
                try:
                    run_hnd()
                except Thrown:
                    run_fin()
                    raise
                run_fin()
            self.ev('x', nid, self.chain())
        else:
            raise ValueError('unknown node ' + k)


def classify(mm):
    e, g = mm.expected.split(), mm.got.split()
    et, gt = e[0], g[0]
    if et == 'h' and (gt != 'h' or e[1] != g[1]):
        return 'handler-skipped'
    if gt == 'h' and (et != 'h' or e[1] != g[1]):
        return 'handler-spurious'
    if et == 'f' and (gt != 'f' or e[1:2] != g[1:2]):
        return 'finally-missed'
    if gt == 'f' and (et != 'f' or e[1:2] != g[1:2]):
        return 'finally-extra'
    if et == gt and e[1:2] == g[1:2]:
        if et == 'g':
            return 'sticky'
        if et == 'k' and e[2:3] == g[2:3]:
            return 'sticky'
        return 'chain'
    if et == 'c' or gt == 'c' or et == 'k' or gt == 'k':
        return 'transfer'
    return 'flow'


def run_model(progs, actual, fin_first):
    m = Model(actual, fin_first)
    for p in progs:
        m.ev('P', count_nodes(p))
        try:
            m.seq(p)
        except Thrown:
            raise Mismatch(m.i, 'no transfer at top level', m.peek())
        m.ev('Q', m.chain())
    if m.i != len(actual):
        raise Mismatch(m.i, '<end>', m.peek())
    return m


def count_nodes(seq):
    t = 0
    for n in seq:
        t += 1
        for x in n[2:]:
            if isinstance(x, list):
                t += count_nodes(x)
    return t


def shape(seq):
    return '(' + ''.join(n[0] + ''.join(shape(x) for x in n[2:] if isinstance(x, list)) for n in seq) + ')'


def check(plan, transcript, config, opts):
    out = Outcome()
    progs = [parse_seq(ln[5:]) for ln in plan.split('\n') if ln.startswith('PROG ')]
    actual = [ln for ln in transcript.split('\n') if ln]
    try:
        m = run_model(progs, actual, True)
    except Mismatch as mm1:
        try:
            m = run_model(progs, actual, False)
        except Mismatch:
            cls = classify(mm1)
            out.evals += 1
            out.violate('C19', 'C19|errsim|' + cls,
                        'event %d: model expects "%s", relic did "%s" (context: %s)'
                        % (mm1.pos, mm1.expected, mm1.got, ' / '.join(actual[max(0, mm1.pos - 4):mm1.pos + 2])))
            return out
    out.evals += len(actual)
    out.keys = set(m.keys)
    out.keys.add(('shape', zlib.crc32(''.join(shape(p) for p in progs).encode())))
    st = m.stats
    out.fault('throw', st['throws'])
    out.fault('throw-outside-any-block', st['outside'])
    out.fault('throw-from-library-call', st['libthrow'])
    out.fault('injected-allocation-failure-throw', st['allocthrow'])
    out.fault('throw-in-finaliser', st['fin_throw'])
    out.fault('throw-in-handler', st['hnd_throw'])
    out.fault('context-switch', st['ctxsw'])
    out.probe('protected-block-inside-finaliser', st['try_in_fin'])
    out.probe('throw-caught-inside-finaliser', st['caught_in_fin'])
    out.probe('nesting-depth>=4', 1 if st['maxdepth'] >= 4 else 0)
    out.probe('handlers-entered', st['handlers'])
    out.probe('finalisers-entered', st['fins'])
    out.probe('get_code-calls', st['getcode'])
    out.sim_time = len(actual)
    return out


# ----------------------------------------------------------------------------- shrinking (tree shaped)

def _variants(seq):
    """Yields smaller versions of seq: delete one node, hoist a node's first child sequence,
    or recurse."""
    for i, n in enumerate(seq):
        yield seq[:i] + seq[i + 1:]
    for i, n in enumerate(seq):
        for j, x in enumerate(n):
            if j >= 2 and isinstance(x, list):
                if x:
                    yield seq[:i] + x + seq[i + 1:]
                for v in _variants(x):
                    yield seq[:i] + [n[:j] + [v] + n[j + 1:]] + seq[i + 1:]


def shrink_plan(plan, fails):
    lines = plan.strip().split('\n')
    hdr = [l for l in lines if not l.startswith('PROG ')]
    progs = [parse_seq(l[5:]) for l in lines if l.startswith('PROG ')]

    def render(ps):
        return '\n'.join(hdr + ['PROG ' + fmt_seq(p) for p in ps if p]) + '\n'

    progress = True
    while progress:
        progress = False
        for pi in range(len(progs)):
            for v in _variants(progs[pi]):
                cand = progs[:pi] + [v] + progs[pi + 1:]
                if any(cand) and fails(render(cand)):
                    progs = cand
                    progress = True
                    break
            if progress:
                break
    return render(progs)
