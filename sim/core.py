# Common core of the relic deterministic simulator (python3 stdlib only).
#
#   Rng            - SplitMix64 based PRNG; one integer decides everything
#   build()        - sync /repo's working tree into scratch, build relic for a config,
#                    compile an executor against it
#   Executor       - handle on one long-lived executor process
#   run_engine()   - seeded search: N python workers, each owning one executor,
#                    generating plans, executing, checking oracles
#   gates/shrink   - same-plan-twice hash, fresh-process replay, ddmin
#   evidence       - /verif/evidence/<id>.json
#   known findings - /verif/known_findings.json (never written at run time)

import fcntl
import hashlib
import json
import multiprocessing as mp
import os
import re
import select
import shutil
import signal
import subprocess
import sys
import time

VERIF = os.path.dirname(os.path.dirname(os.path.abspath(__file__)))
REPO = os.environ.get('VERIF_REPO', '/repo')
SCRATCH = os.environ.get('VERIF_SCRATCH', '/var/tmp/relic-verif')
# where evidence/ and replays/ are written (mutant runs against scratch copies point this elsewhere)
OUT = os.environ.get('VERIF_OUT', VERIF)
NPROC = int(os.environ.get('VERIF_WORKERS', min(16, os.cpu_count() or 1)))

M64 = (1 << 64) - 1


# --------------------------------------------------------------------------- PRNG

class Rng:
    """SplitMix64.  Not python's random: plans must not depend on the interpreter."""

    def __init__(self, seed):
        self.s = seed & M64

    @staticmethod
    def derive(*parts):
        h = hashlib.sha256('|'.join(str(p) for p in parts).encode()).digest()
        return Rng(int.from_bytes(h[:8], 'big'))

    def u64(self):
        self.s = (self.s + 0x9E3779B97F4A7C15) & M64
        z = self.s
        z = ((z ^ (z >> 30)) * 0xBF58476D1CE4E5B9) & M64
        z = ((z ^ (z >> 27)) * 0x94D049BB133111EB) & M64
        return z ^ (z >> 31)

    def below(self, n):
        if n <= 0:
            return 0
        if n <= (1 << 32):
            return self.u64() % n
        # large bounds: concatenate words
        k = (n.bit_length() + 63) // 64 + 1
        v = 0
        for _ in range(k):
            v = (v << 64) | self.u64()
        return v % n

    def randint(self, a, b):
        return a + self.below(b - a + 1)

    def chance(self, p):
        return (self.u64() >> 11) < int(p * (1 << 53))

    def choice(self, seq):
        return seq[self.below(len(seq))]

    def weighted(self, pairs):
        """pairs: [(item, weight)]"""
        tot = sum(w for _, w in pairs)
        r = self.below(tot)
        for it, w in pairs:
            if r < w:
                return it
            r -= w
        return pairs[-1][0]

    def bytes(self, n):
        out = bytearray()
        while len(out) < n:
            out += self.u64().to_bytes(8, 'little')
        return bytes(out[:n])

    def shuffle(self, lst):
        for i in range(len(lst) - 1, 0, -1):
            j = self.below(i + 1)
            lst[i], lst[j] = lst[j], lst[i]

    def sample(self, seq, k):
        l = list(seq)
        self.shuffle(l)
        return l[:k]


# --------------------------------------------------------------------------- build

SAN = ('-fsanitize=address,shift-exponent,integer-divide-by-zero,null,bounds,object-size '
       '-fno-sanitize-recover=all -fno-omit-frame-pointer')

BASE_OPTS = ['-DTESTS=0', '-DBENCH=0', '-DDOCUM=off', '-DSHLIB=off', '-DSTLIB=on',
             '-DCMAKE_BUILD_TYPE=', '-DWSIZE=64', '-DARITH=easy', '-DCHECK=on', '-DVERBS=on',
             '-DSEED=UDEV', '-DRAND=HASHD', '-DBN_PRECI=1024', '-DWITH=ALL']

WRAP_IO = '-Wl,--wrap=open,--wrap=read,--wrap=close'
WRAP_ALLOC = '-Wl,--wrap=malloc,--wrap=calloc,--wrap=realloc,--wrap=free'

CONFIGS = {
    # auto allocation + ASan/UBSan
    'A': dict(cmake=['-DFP_PRIME=256', '-DALLOC=AUTO'], cflags='-O1 -g ' + SAN,
              exe_cflags='-O1 -g ' + SAN, link=[WRAP_IO]),
    # dynamic allocation + ASan/UBSan + wrapped allocator
    'D': dict(cmake=['-DFP_PRIME=256', '-DALLOC=DYNAMIC'], cflags='-O1 -g ' + SAN,
              exe_cflags='-O1 -g -DSIM_WRAP_ALLOC ' + SAN, link=[WRAP_IO, WRAP_ALLOC]),
    # pthread + trace-pc (baton scheduler preemption points)
    'T': dict(cmake=['-DFP_PRIME=256', '-DALLOC=AUTO', '-DMULTI=PTHREAD'],
              cflags='-O2 -g -fsanitize-coverage=trace-pc',
              exe_cflags='-O2 -g -pthread', link=[WRAP_IO, '-pthread', '-no-pie']),
    'A381': dict(cmake=['-DFP_PRIME=381', '-DALLOC=AUTO'], cflags='-O1 -g ' + SAN,
                 exe_cflags='-O1 -g ' + SAN, link=[WRAP_IO]),
    'A255': dict(cmake=['-DFP_PRIME=255', '-DALLOC=AUTO'], cflags='-O1 -g ' + SAN,
                 exe_cflags='-O1 -g ' + SAN, link=[WRAP_IO]),
    'Apkcs1': dict(cmake=['-DFP_PRIME=256', '-DALLOC=AUTO', '-DCP_RSAPD=PKCS1'], cflags='-O1 -g ' + SAN,
                   exe_cflags='-O1 -g ' + SAN, link=[WRAP_IO]),
    'Abasic': dict(cmake=['-DFP_PRIME=256', '-DALLOC=AUTO', '-DCP_RSAPD=BASIC'], cflags='-O1 -g ' + SAN,
                   exe_cflags='-O1 -g ' + SAN, link=[WRAP_IO]),
    'Anocrt': dict(cmake=['-DFP_PRIME=256', '-DALLOC=AUTO', '-DCP_CRT=off'], cflags='-O1 -g ' + SAN,
                   exe_cflags='-O1 -g ' + SAN, link=[WRAP_IO]),
}


# extra link flags per executor
ENGINE_LINK = {'drbgsim': ['-Wl,--wrap=rand_bytes']}


class BuildError(Exception):
    pass


def _run(cmd, cwd=None, log=None):
    p = subprocess.run(cmd, cwd=cwd, stdout=subprocess.PIPE, stderr=subprocess.STDOUT)
    if log:
        with open(log, 'ab') as f:
            f.write(('$ ' + ' '.join(cmd) + '\n').encode())
            f.write(p.stdout)
    if p.returncode != 0:
        raise BuildError('command failed: %s\n%s' % (' '.join(cmd), p.stdout.decode(errors='replace')[-4000:]))
    return p.stdout


def build(config, engine, repo=None, quiet=True):
    """Builds relic (static) for `config` from the current working tree of /repo and the
    executor for `engine`.  Returns the executor path.  Serialised per config by a lock."""
    repo = repo or REPO
    cfg = CONFIGS[config]
    root = os.path.join(SCRATCH, config)
    os.makedirs(root, exist_ok=True)
    lock = open(os.path.join(SCRATCH, config + '.lock'), 'w')
    fcntl.flock(lock, fcntl.LOCK_EX)
    try:
        src = os.path.join(root, 'src')
        bld = os.path.join(root, 'build')
        log = os.path.join(root, 'build.log')
        if os.path.exists(log) and os.path.getsize(log) > (4 << 20):
            os.unlink(log)
        os.makedirs(src, exist_ok=True)
        # content-based sync without preserving mtimes: a file is rewritten (and gets a fresh mtime,
        # so ninja rebuilds it) exactly when its content differs - also when an edit is reverted
        _run(['rsync', '-rlpc', '--delete', '--exclude', '/_build', '--exclude', '/.git',
              repo.rstrip('/') + '/', src + '/'], log=log)
        stamp = os.path.join(bld, '.verif-config')
        want = json.dumps([BASE_OPTS, cfg['cmake'], cfg['cflags']])
        have = open(stamp).read() if os.path.exists(stamp) else None
        if have != want or not os.path.exists(os.path.join(bld, 'build.ninja')):
            shutil.rmtree(bld, ignore_errors=True)
            os.makedirs(bld)
            env = dict(os.environ)
            env.pop('CFLAGS', None)
            p = subprocess.run(['cmake', '-G', 'Ninja', '-S', src, '-B', bld] + BASE_OPTS + cfg['cmake'] +
                               ['-DCFLAGS=' + cfg['cflags'] + ' -Wno-error'],
                               stdout=subprocess.PIPE, stderr=subprocess.STDOUT, env=env)
            open(log, 'ab').write(p.stdout)
            if p.returncode != 0:
                raise BuildError('cmake configure failed for config %s:\n%s' % (config, p.stdout.decode(errors='replace')[-3000:]))
            open(stamp, 'w').write(want)
        _run(['cmake', '--build', bld, '-j', str(NPROC)], log=log)
        lib = os.path.join(bld, 'lib', 'librelic_s.a')
        if not os.path.exists(lib):
            raise BuildError('no static library produced for config ' + config)
        bindir = os.path.join(root, 'bin')
        os.makedirs(bindir, exist_ok=True)
        exe = os.path.join(bindir, engine)
        csrc = os.path.join(VERIF, 'exec', engine + '.c')
        deps = [csrc, os.path.join(VERIF, 'exec', 'simcommon.h'), lib]
        extra = os.path.join(VERIF, 'exec', engine + '_extra.h')
        if os.path.exists(extra):
            deps.append(extra)
        for fn in os.listdir(os.path.join(VERIF, 'exec')):
            if fn.endswith('.h'):
                deps.append(os.path.join(VERIF, 'exec', fn))
        if (not os.path.exists(exe)) or any(os.path.getmtime(d) > os.path.getmtime(exe) for d in deps):
            cmd = (['gcc'] + cfg['exe_cflags'].split() + ['-D_GNU_SOURCE', '-Wno-unused-function',
                   '-I', os.path.join(src, 'include'), '-I', os.path.join(src, 'include', 'low'),
                   '-I', os.path.join(bld, 'include'), '-I', os.path.join(VERIF, 'exec'),
                   '-o', exe + '.tmp', csrc, lib] + cfg['link'] + ENGINE_LINK.get(engine, []))
            _run(cmd, log=log)
            os.replace(exe + '.tmp', exe)
        if engine == 'thrsim':
            # blocks of library code that touch writable static storage which is not thread-local (race-directed parking)
            from . import watch
            watch.write(lib, exe)
        return exe
    finally:
        fcntl.flock(lock, fcntl.LOCK_UN)
        lock.close()


def clean_scratch():
    shutil.rmtree(SCRATCH, ignore_errors=True)


# --------------------------------------------------------------------------- executor handle

class Executor:
    def __init__(self, exe, tag):
        self.exe = exe
        self.tag = tag
        self.logdir = os.path.join(SCRATCH, 'logs')
        os.makedirs(self.logdir, exist_ok=True)
        self.p = None
        self.restarts = 0

    def _spawn(self):
        env = dict(os.environ)
        env['ASAN_OPTIONS'] = ('exitcode=77:detect_leaks=0:abort_on_error=0:allocator_may_return_null=1:'
                               'detect_stack_use_after_return=0')
        env['UBSAN_OPTIONS'] = 'halt_on_error=1:exitcode=77:print_stacktrace=1'
        # stderr (relic's own diagnostics and any sanitizer report) goes to an append-mode scratch
        # file that is truncated between plans and read only after the executor has died
        self.errpath = os.path.join(self.logdir, 'err.%s.%d' % (self.tag, os.getpid()))
        self.errf = open(self.errpath, 'ab')
        self.p = subprocess.Popen([self.exe], stdin=subprocess.PIPE, stdout=subprocess.PIPE,
                                  stderr=self.errf, env=env, bufsize=0)

    def close(self):
        if self.p:
            try:
                self.p.stdin.close()
            except Exception:
                pass
            try:
                self.p.kill()
            except Exception:
                pass
            self.p.wait()
            self.p = None
            try:
                self.errf.close()
                os.unlink(self.errpath)
            except Exception:
                pass

    def _read_exact(self, n, deadline):
        out = bytearray()
        fd = self.p.stdout.fileno()
        while len(out) < n:
            if deadline.left() <= 0:
                return None
            r, _, _ = select.select([fd], [], [], 0.5)
            if not r:
                if self.p.poll() is not None:
                    return bytes(out) if False else b''
                continue
            chunk = os.read(fd, min(1 << 20, n - len(out)))
            if not chunk:
                return b''
            out += chunk
        return bytes(out)

    def _read_line(self, deadline):
        out = bytearray()
        fd = self.p.stdout.fileno()
        while True:
            if deadline.left() <= 0:
                return None
            r, _, _ = select.select([fd], [], [], 0.5)
            if not r:
                if self.p.poll() is not None:
                    return b''
                continue
            c = os.read(fd, 1)
            if not c:
                return b''
            if c == b'\n':
                return bytes(out)
            out += c

    def run(self, plan, timeout=60.0):
        """Returns (status, transcript_text, diag).  status: 'ok' | 'died' | 'hang'."""
        if isinstance(plan, str):
            plan = plan.encode()
        if self.p is None or self.p.poll() is not None:
            if self.p is not None:
                self.close()
            self._spawn()
        deadline = Budget(self.p.pid, timeout)
        try:
            if os.path.getsize(self.errpath) > (1 << 18):
                os.truncate(self.errpath, 0)
        except OSError:
            pass
        try:
            self.p.stdin.write(b'RUN %d\n' % len(plan) + plan)
            self.p.stdin.flush()
        except (BrokenPipeError, OSError):
            return self._dead()
        hdr = self._read_line(deadline)
        if hdr is None:
            return self._hang()
        if not hdr.startswith(b'DONE '):
            return self._dead()
        n = int(hdr[5:])
        body = self._read_exact(n, deadline)
        if body is None:
            return self._hang()
        if len(body) != n:
            return self._dead()
        return 'ok', body.decode('latin-1'), ''

    def _hang(self):
        self.restarts += 1
        self.close()
        return 'hang', '', 'timeout'

    def _dead(self):
        self.restarts += 1
        try:
            rc = self.p.wait(timeout=10)
        except Exception:
            self.p.kill()
            rc = self.p.wait()
        diag = 'exit=%s\n' % rc
        try:
            with open(self.errpath, 'rb') as f:
                data = f.read()
            diag += _san_tail(data.decode('latin-1'))
        except OSError:
            pass
        self.close()
        return 'died', '', diag


def _san_tail(text):
    """The sanitizer report at the end of a stderr capture (relic's own chatter removed), preceded
    by the executor's last progress marker if there is one."""
    marks = re.findall(r'SIMPROGRESS [^\n]*', text)
    head = (marks[-1] + '\n') if marks else ''
    idx = max(text.rfind('==ERROR'), text.rfind('runtime error:'))
    if idx < 0:
        return head + text[-3000:]
    start = text.rfind('\n', 0, idx) + 1
    return head + text[start:start + 12000]


def proc_cpu_seconds(pid):
    """CPU time (user + system, all threads) consumed by a process, from /proc; None if it is gone."""
    try:
        f = open('/proc/%d/stat' % pid).read()
        f = f[f.rindex(')') + 2:].split()
        return (int(f[11]) + int(f[12])) / float(os.sysconf('SC_CLK_TCK'))
    except (OSError, ValueError, IndexError):
        return None


class Budget:
    """Time budget of one plan, measured in CPU seconds of the executor process so that a loaded machine does not turn
    slow plans into 'hangs'; a wall-clock cap (a plan that consumes no CPU at all: a deadlock) bounds it."""

    def __init__(self, pid, seconds):
        self.pid, self.seconds = pid, seconds
        self.cpu0 = proc_cpu_seconds(pid) or 0.0
        self.wall_cap = time.time() + max(8.0 * seconds, 300.0)

    def left(self):
        if time.time() >= self.wall_cap:
            return 0.0
        c = proc_cpu_seconds(self.pid)
        if c is not None and c - self.cpu0 >= self.seconds:
            return 0.0
        return 1.0


def run_once_fresh(exe, plan_path, timeout=120.0):
    """Fresh-process replay of a plan file.  Returns (status, transcript, diag)."""
    env = dict(os.environ)
    env['ASAN_OPTIONS'] = ('exitcode=77:detect_leaks=0:abort_on_error=0:allocator_may_return_null=1:'
                           'detect_stack_use_after_return=0')
    env['UBSAN_OPTIONS'] = 'halt_on_error=1:exitcode=77:print_stacktrace=1'
    import tempfile
    with tempfile.TemporaryFile() as fo, tempfile.TemporaryFile() as fe:
        p = subprocess.Popen([exe, plan_path], stdout=fo, stderr=fe, env=env)
        b = Budget(p.pid, timeout)
        while p.poll() is None:
            if b.left() <= 0:
                p.kill()
                p.wait()
                return 'hang', '', 'timeout'
            time.sleep(0.05)
        fo.seek(0)
        fe.seek(0)
        so, se = fo.read(), fe.read()
    if p.returncode != 0:
        return 'died', so.decode('latin-1'), 'exit=%d\n%s' % (p.returncode, _san_tail(se.decode('latin-1')))
    return 'ok', so.decode('latin-1'), ''


SAN_KIND_RE = re.compile(r'(AddressSanitizer|UndefinedBehaviorSanitizer|runtime error)[: ]+([^\n]*)')
FRAME_RE = re.compile(r'#\d+ 0x[0-9a-f]+ in (\S+) ([^\n]*)')


def crash_signature(diag, skip=()):
    """Canonical 'kind|function' of a sanitizer report or signal death."""
    kind = 'crash'
    m = re.search(r'AddressSanitizer: ([a-zA-Z0-9\-_]+)', diag)
    if m:
        kind = 'asan-' + m.group(1)
    else:
        m = re.search(r'runtime error: ([^\n]*)', diag)
        if m:
            t = m.group(1)
            t = re.sub(r'0x[0-9a-f]+', 'ADDR', t)
            t = re.sub(r'-?\d+', 'N', t)
            kind = 'ubsan-' + t.strip().replace(' ', '_')[:60]
        else:
            m = re.search(r'exit=(-?\d+)', diag)
            if m:
                kind = 'exit' + m.group(1)
    func = '?'
    for m in FRAME_RE.finditer(diag):
        f = m.group(1)
        where = m.group(2)
        if f.startswith('__') or 'sanitizer' in where or 'libasan' in where or 'libubsan' in where or f in skip:
            continue
        if '/exec/' in where and 'relic' not in where.split('/')[-1]:
            # a frame of the executor itself: keep looking for the relic frame but remember
            if func == '?':
                func = 'executor:' + f
            continue
        func = f
        break
    return kind + '|' + func


# --------------------------------------------------------------------------- results

class Violation:
    def __init__(self, prop, sig, detail):
        self.prop = prop
        self.sig = sig          # canonical signature, stable across seeds and shrinking
        self.detail = detail

    def __repr__(self):
        return 'Violation(%s, %s)' % (self.sig, self.detail[:200])


class Outcome:
    """What an engine's check() returns for one executed plan."""

    def __init__(self):
        self.violations = []    # [Violation]
        self.evals = 0          # oracle evaluations
        self.keys = set()       # distinct non-trivial case keys (engine's stated rule)
        self.faults = {}        # fault kind -> times actually fired
        self.probes = {}        # rare-condition probe -> hits
        self.sim_time = 0       # simulated time units covered
        self.notes = []

    def fault(self, kind, n=1):
        self.faults[kind] = self.faults.get(kind, 0) + n

    def probe(self, name, n=1):
        self.probes[name] = self.probes.get(name, 0) + n

    def violate(self, prop, sig, detail):
        self.violations.append(Violation(prop, sig, detail))


def tr_hash(text):
    return hashlib.sha256(text.encode('latin-1')).hexdigest()


# --------------------------------------------------------------------------- worker

def run_refs(eng, exe, plan):
    """Reference executions an engine asks for (e.g. each context's script run alone): each one in
    a brand-new executor process, so that nothing left behind by other scripts can leak into it."""
    out = []
    if not hasattr(eng, 'extra_runs'):
        return None
    for k, rp in enumerate(eng.extra_runs(plan)):
        ex2 = Executor(exe, 'ref.%s.%d' % (eng.NAME, k))
        try:
            out.append(ex2.run(rp, timeout=getattr(eng, 'TIMEOUT', 60.0)))
        finally:
            ex2.close()
    return out


def call_check(eng, plan, tr, config, opts, exe):
    refs = run_refs(eng, exe, plan)
    if refs is None:
        return eng.check(plan, tr, config, opts)
    return eng.check(plan, tr, config, opts, refs)


def _crash_ident(eng, plan, diag, prop):
    if hasattr(eng, 'crash_sig'):
        return eng.crash_sig(plan, diag, prop)
    cp = eng.crash_prop(plan, prop) if hasattr(eng, 'crash_prop') else prop
    return cp, cp + '|crash|' + crash_signature(diag)


def _merge_outcome(out, o2, plan):
    for v in o2.violations:
        if not hasattr(v, 'plan'):
            v.plan = plan
    out.violations += o2.violations
    out.evals += o2.evals
    out.keys |= o2.keys
    for k, v in o2.faults.items():
        out.faults[k] = out.faults.get(k, 0) + v
    for k, v in o2.probes.items():
        out.probes[k] = out.probes.get(k, 0) + v
    out.sim_time += o2.sim_time


def _worker(engine_mod, config, exe, prop, seed, tier, wid, nworkers, nruns, deadline, q, opts):
    signal.signal(signal.SIGINT, signal.SIG_IGN)
    eng = engine_mod
    ex = Executor(exe, '%s.%s.%d' % (eng.NAME, config, wid))
    agg = dict(runs=0, evals=0, keys=set(), faults={}, probes={}, sim_time=0, samples=[],
               found=[], died=0, hangs=0, hashes=set(), exec_s=0.0, notes=[], known_seen={})
    maxkeys = 200000
    try:
        i = wid
        known = load_known()
        persig = {}
        while i < nruns and time.time() < deadline and len(agg['found']) < 12:
            rng = Rng.derive(seed, eng.NAME, config, i)
            plan = eng.gen_plan(rng, tier, config, opts)
            out = Outcome()
            todo = plan
            status = 'ok'
            if agg['runs'] > 0 and ((getattr(eng, 'FRESH_EVERY', 0) and (i // nworkers) % eng.FRESH_EVERY == 0) or '\n# fresh-process\n' in plan):
                # a brand-new executor process for this plan: whatever the library initialises lazily, once per
                # process, is initialised again - under this plan's schedule
                ex.close()
                ex = Executor(exe, '%s.%s.%d' % (eng.NAME, config, wid))
            while todo is not None:
                t0 = time.time()
                status, tr, diag = ex.run(todo, timeout=eng.TIMEOUT if hasattr(eng, 'TIMEOUT') else 60.0)
                agg['exec_s'] += time.time() - t0
                nxt = None
                if status == 'ok':
                    o2 = call_check(eng, todo, tr, config, opts, exe)
                    agg['hashes'].add(tr_hash(tr)[:16])
                    _merge_outcome(out, o2, todo)
                elif status == 'died':
                    agg['died'] += 1
                    cp, sig = _crash_ident(eng, todo, diag, prop)
                    v = Violation(cp, sig, 'executor died: ' + diag[:3000])
                    v.plan = eng.crash_plan(todo, diag) if hasattr(eng, 'crash_plan') else todo
                    out.violations.append(v)
                    if hasattr(eng, 'continue_after_crash'):
                        nxt = eng.continue_after_crash(todo, diag)
                else:
                    agg['hangs'] += 1
                    out.violate(prop, prop + '|hang|' + eng.NAME, 'plan exceeded its time budget')
                    if agg['hangs'] >= 2:
                        deadline = 0
                todo = nxt
            agg['runs'] += 1
            agg['evals'] += out.evals
            if len(agg['keys']) < maxkeys:
                agg['keys'] |= out.keys
            for k, v in out.faults.items():
                agg['faults'][k] = agg['faults'].get(k, 0) + v
            for k, v in out.probes.items():
                agg['probes'][k] = agg['probes'].get(k, 0) + v
            agg['sim_time'] += out.sim_time
            if len(agg['samples']) < 2 and (i % 7 == 0 or i < 2):
                agg['samples'].append(dict(index=i, plan=plan[:1500], outcome='ok' if not out.violations else 'violation',
                                           evaluations=out.evals))
            for v in out.violations:
                if v.prop != prop:
                    # another property's domain (e.g. a crash under an injected allocation failure
                    # inside errsim belongs to C08): counted, not reported by this check
                    agg['faults']['foreign:' + v.sig[:60]] = agg['faults'].get('foreign:' + v.sig[:60], 0) + 1
                    continue
                rec = dict(index=i, plan=getattr(v, 'plan', None) or plan, prop=v.prop, sig=v.sig,
                           detail=v.detail, status=status)
                if known_entry(v.sig, known):
                    # listed findings: remembered once per signature, never stop the search
                    agg['known_seen'].setdefault(v.sig, rec)
                    agg['faults']['known:' + v.sig[:70]] = agg['faults'].get('known:' + v.sig[:70], 0) + 1
                    continue
                persig[v.sig] = persig.get(v.sig, 0) + 1
                if persig[v.sig] <= 2 and len(agg['found']) < 12:
                    agg['found'].append(rec)
            i += nworkers
    except Exception as e:  # infrastructure failure inside a worker
        import traceback
        agg['notes'].append('worker exception: ' + traceback.format_exc())
        agg['infra'] = True
    finally:
        ex.close()
    agg['keys'] = list(agg['keys'])
    agg['hashes'] = list(agg['hashes'])
    q.put(agg)


def run_engine(engine_mod, config, prop, seed, tier, nruns, max_seconds, opts=None, nworkers=None):
    """Seeded search for one engine on one build config.  Returns the aggregate dict."""
    opts = opts or {}
    exe = build(config, engine_mod.EXEC if hasattr(engine_mod, 'EXEC') else engine_mod.NAME)
    nworkers = nworkers or NPROC
    nworkers = max(1, min(nworkers, nruns))
    q = mp.Queue()
    deadline = time.time() + max_seconds
    t0 = time.time()
    procs = []
    for w in range(nworkers):
        p = mp.Process(target=_worker, args=(engine_mod, config, exe, prop, seed, tier, w, nworkers, nruns,
                                             deadline, q, opts))
        p.start()
        procs.append(p)
    total = dict(engine=engine_mod.NAME, config=config, exe=exe, runs=0, evals=0, keys=set(), faults={}, probes={},
                 sim_time=0, samples=[], found=[], died=0, hangs=0, hashes=set(), exec_s=0.0, notes=[],
                 infra=False, planned=nruns, known_seen={})
    for _ in procs:
        a = q.get()
        total['runs'] += a['runs']
        total['evals'] += a['evals']
        total['keys'] |= set(a['keys'])
        total['hashes'] |= set(a['hashes'])
        for k, v in a['faults'].items():
            total['faults'][k] = total['faults'].get(k, 0) + v
        for k, v in a['probes'].items():
            total['probes'][k] = total['probes'].get(k, 0) + v
        total['sim_time'] += a['sim_time']
        total['samples'] += a['samples']
        total['found'] += a['found']
        for k, v in a['known_seen'].items():
            if k not in total['known_seen'] or v['index'] < total['known_seen'][k]['index']:
                total['known_seen'][k] = v
        total['died'] += a['died']
        total['hangs'] += a['hangs']
        total['exec_s'] += a['exec_s']
        total['notes'] += a['notes']
        if a.get('infra'):
            total['infra'] = True
    for p in procs:
        p.join()
    total['wall_s'] = time.time() - t0
    total['found'].sort(key=lambda f: f['index'])
    total['samples'].sort(key=lambda s: s['index'])
    total['samples'] = total['samples'][:3]
    return total


# --------------------------------------------------------------------------- known findings

def load_known():
    path = os.path.join(VERIF, 'known_findings.json')
    if not os.path.exists(path):
        return []
    return json.load(open(path))


def sig_matches(pattern, sig):
    """'*' in a pattern matches any run of characters; everything else is literal."""
    parts = pattern.split('*')
    if len(parts) == 1:
        return pattern == sig
    if not sig.startswith(parts[0]):
        return False
    pos = len(parts[0])
    for mid in parts[1:-1]:
        i = sig.find(mid, pos)
        if i < 0:
            return False
        pos = i + len(mid)
    return sig.endswith(parts[-1]) and len(sig) - len(parts[-1]) >= pos


def known_entry(sig, known):
    for e in known:
        if e.get('status') == 'known' and sig_matches(e['signature'], sig):
            return e
    return None


# --------------------------------------------------------------------------- gates and shrinking

def evaluate_plan(engine_mod, config, exe, plan, prop, ex=None, opts=None):
    """Executes a plan (in-process worker `ex` or a new one) and returns (sigs, hash, status, outcome)."""
    own = ex is None
    if own:
        ex = Executor(exe, 'gate.%s.%s' % (engine_mod.NAME, config))
    try:
        status, tr, diag = ex.run(plan, timeout=getattr(engine_mod, 'TIMEOUT', 60.0))
    finally:
        if own:
            ex.close()
    return _judge(engine_mod, config, plan, prop, status, tr, diag, opts, exe)


def _judge(engine_mod, config, plan, prop, status, tr, diag, opts, exe=None):
    if status == 'ok':
        out = call_check(engine_mod, plan, tr, config, opts or {}, exe)
        return [(v.prop, v.sig, v.detail) for v in out.violations], tr_hash(tr), status
    if status == 'died':
        cp, sig = _crash_ident(engine_mod, plan, diag, prop)
        return [(cp, sig, diag[:3000])], 'died:' + sig, status
    return [(prop, prop + '|hang|' + engine_mod.NAME, 'timeout')], 'hang', status


def evaluate_fresh(engine_mod, config, exe, plan_path, prop, opts=None):
    status, tr, diag = run_once_fresh(exe, plan_path, timeout=getattr(engine_mod, 'TIMEOUT', 60.0) * 2)
    plan = open(plan_path).read()
    if status == 'died' and 'exit=' in diag:
        return _judge(engine_mod, config, plan, prop, 'died', tr, diag, opts, exe)
    return _judge(engine_mod, config, plan, prop, status, tr, diag, opts, exe)


def split_plan(plan):
    """Header lines (not removable) and body lines.  A body starts at the first line that is
    not one of the header keywords."""
    hdr_kw = ('relic-sim-plan', 'engine', 'config', 'seed', 'entropy', 'fill', 'param', 'profile', 'hdr',
              'ENTROPY', 'CURVE', 'KEYBITS')
    hdr, body = [], []
    for ln in plan.split('\n'):
        if not ln.strip():
            continue
        w = ln.split(None, 1)[0]
        if not body and (w in hdr_kw or ln.startswith('#')):
            hdr.append(ln)
        else:
            body.append(ln)
    return hdr, body


def join_plan(hdr, body):
    return '\n'.join(hdr + body) + '\n'


def shrink(engine_mod, config, exe, plan, prop, sig, opts=None, budget_runs=300, budget_s=60.0):
    """ddmin over body lines, then per-line simplification offered by the engine; a candidate is
    accepted only if it fails with the same signature."""
    t0 = time.time()
    runs = [0]
    ex = Executor(exe, 'shrink.%s.%s' % (engine_mod.NAME, config))

    def fails(p):
        if runs[0] >= budget_runs or time.time() - t0 > budget_s:
            return False
        runs[0] += 1
        try:
            sigs, _, _ = evaluate_plan(engine_mod, config, exe, p, prop, ex=ex, opts=opts)
        except Exception:
            return False        # a candidate the oracle cannot interpret is not a smaller failing plan
        return any(s == sig for _, s, _ in sigs)

    try:
        if hasattr(engine_mod, 'shrink_plan'):
            # engine-specific structural shrinker (e.g. tree-shaped plans)
            plan = engine_mod.shrink_plan(plan, fails)
        hdr, body = split_plan(plan)
        atomic = getattr(engine_mod, 'SHRINK_LINES', True)
        if atomic and len(body) > 1:
            n = 2
            while len(body) >= 2:
                chunk = max(1, len(body) // n)
                reduced = False
                for start in range(0, len(body), chunk):
                    cand = body[:start] + body[start + chunk:]
                    if cand and fails(join_plan(hdr, cand)):
                        body = cand
                        n = max(n - 1, 2)
                        reduced = True
                        break
                if not reduced:
                    if chunk == 1:
                        break
                    n = min(len(body), n * 2)
                if runs[0] >= budget_runs or time.time() - t0 > budget_s:
                    break
        if hasattr(engine_mod, 'simplify_line'):
            changed = True
            while changed and runs[0] < budget_runs and time.time() - t0 <= budget_s:
                changed = False
                for idx in range(len(body)):
                    for alt in engine_mod.simplify_line(body[idx]):
                        if alt == body[idx]:
                            continue
                        cand = body[:idx] + ([alt] if alt else []) + body[idx + 1:]
                        if cand and fails(join_plan(hdr, cand)):
                            body = cand
                            changed = True
                            break
                    if changed:
                        break
        return join_plan(hdr, body), runs[0]
    finally:
        ex.close()


def confirm_and_report(engine_mod, config, exe, finding, prop_checked, seed, known, opts=None, do_shrink=True, light=False):
    """Gates + minimisation for one finding.  Returns dict(kind='violation'|'known'|'unconfirmed', ...).

    Gate 1: the plan is executed twice more, each time in a new executor process, and the same
    violation signature must recur both times (the transcript hashes are compared too; if they
    differ although the signature recurs, the library's output itself depends on something that is
    not in the plan - never-written storage, addresses - and the report says so).
    Gate 2: the minimised plan is written to the replay file and replayed in a fresh process; it
    must fail with the same signature, else the unminimised plan is used instead."""
    plan = finding['plan']
    sig = finding['sig']
    prop = finding['prop']
    r1 = evaluate_plan(engine_mod, config, exe, plan, prop, opts=opts)
    r2 = r1 if light else evaluate_plan(engine_mod, config, exe, plan, prop, opts=opts)
    if not any(s == sig for _, s, _ in r1[0]) or not any(s == sig for _, s, _ in r2[0]):
        return dict(kind='unconfirmed', sig=sig,
                    why='gate 1: signature %s did not recur in two fresh executors (got %s / %s); the finding depended on '
                        'state left behind by earlier plans in the same executor' % (sig, [s for _, s, _ in r1[0]],
                                                                                  [s for _, s, _ in r2[0]]))
    nondet = r1[1] != r2[1]
    nshrink = 0
    small = plan
    if do_shrink and not light:
        small, nshrink = shrink(engine_mod, config, exe, plan, prop, sig, opts=opts)
    os.makedirs(os.path.join(OUT, 'replays'), exist_ok=True)
    tag = hashlib.sha256(sig.encode()).hexdigest()[:10]
    path = os.path.join(OUT, 'replays', '%s-%s-%s-%d.plan' % (prop, engine_mod.NAME, tag, finding['index']))
    r3 = None
    for cand in ([small, plan] if small != plan else [plan]):
        with open(path, 'w') as f:
            f.write(cand)
        r3 = evaluate_fresh(engine_mod, config, exe, path, prop, opts=opts)
        if any(s == sig for _, s, _ in r3[0]):
            plan = cand
            break
    else:
        return dict(kind='unconfirmed', sig=sig,
                    why='gate 2: fresh-process replay of %s gave %s instead of %s' % (path, [s for _, s, _ in r3[0]], sig))
    detail = next(d for _, s, d in r3[0] if s == sig)
    if nondet:
        detail += ('\n[note: two executions of this plan produced different transcripts although the same violation '
                   'recurred - the library output depends on something outside the plan, e.g. never-written storage]')
    ke = known_entry(sig, known)
    return dict(kind='known' if ke else 'violation', prop=prop, sig=sig, path=path, detail=detail,
                shrink_runs=nshrink, what=(ke or {}).get('what'), plan_lines=len(plan.strip().split('\n')))


# --------------------------------------------------------------------------- evidence

def write_evidence(prop, tier, seed, level, totals, wall_s, nviol, rule, extra=None, assumptions=None):
    os.makedirs(os.path.join(OUT, 'evidence'), exist_ok=True)
    evaluations = sum(t['evals'] for t in totals)
    keys = set()
    for t in totals:
        keys |= set((t['engine'],) + (tuple(k) if isinstance(k, (list, tuple)) else (k,)) for k in t['keys'])
    runs = sum(t['runs'] for t in totals)
    cov = dict(
        evaluations=int(evaluations),
        distinct_nontrivial=len(keys),
        rule=rule,
        samples=[s for t in totals for s in t['samples']][:6],
        runs=runs,
        runs_per_hour=int(runs / max(wall_s, 1e-9) * 3600),
        seeds='run i of engine e on config c uses SplitMix64(sha256(VERIF_SEED|e|c|i)); VERIF_SEED=%d' % seed,
        distinct_transcripts=sum(len(t['hashes']) for t in totals),
        simulated_time_units=int(sum(t['sim_time'] for t in totals)),
        faults_fired={t['engine'] + '/' + t['config']: dict(sorted(t['faults'].items())) for t in totals},
        reach_probes={t['engine'] + '/' + t['config']: dict(sorted(t['probes'].items())) for t in totals},
        probes_at_zero=sorted(set(t['engine'] + ':' + k for t in totals for k, v in t['probes'].items() if v == 0)),
        per_engine=[dict(engine=t['engine'], config=t['config'], runs=t['runs'], planned=t['planned'],
                         evaluations=t['evals'], executor_deaths=t['died'], hangs=t['hangs'],
                         wall_s=round(t['wall_s'], 1), executor_s=round(t['exec_s'], 1)) for t in totals],
        real_vs_stub=dict(
            real='every line of relic (static library built from /repo working tree for this run): codecs, DRBG, '
                 'error macros, contexts, protocols, arithmetic',
            stub='entropy device (open/read/close), allocation-failure decisions and garbage fill, wire/store and '
                 'their faults, dishonest parties, thread scheduler (baton over parked pthreads), reference models (python)'),
        exhaustive=False,
    )
    if extra:
        cov.update(extra)
    ev = dict(property_id=prop, tier=tier, seed=int(seed), level=level, coverage=cov,
              assumptions=assumptions or [], wall_s=round(wall_s, 2), violations=int(nviol))
    path = os.path.join(OUT, 'evidence', prop + '.json')
    tmp = path + '.tmp'
    with open(tmp, 'w') as f:
        json.dump(ev, f, indent=1, sort_keys=False, default=str)
    os.replace(tmp, path)
    return path
