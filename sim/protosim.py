# protosim: protocol sessions over an adversarial wire with possibly dishonest parties (DESIGN.md 3.1/3.2)
import hashlib

from . import models
from .core import Outcome

NAME = 'protosim'
TIMEOUT = 240.0

CURVES_PLAIN = ['NIST_P256', 'BSI_P256', 'SM2_P256', 'SECG_K256', 'SM9_P256']
MLENS = [0, 1, 31, 32, 33, 55, 56, 63, 64, 65, 119, 120, 127, 128, 129]
RSABITS = [768, 769, 770, 776, 777, 784, 792, 800, 801, 808, 816, 824, 976, 1009, 1010, 1017, 1018, 1024]     # every residue of the bit length and of the byte length mod 8

BN_FAULTS = ['flip', 'flip', 'v_zero', 'v_ord', 'v_addord', 'v_negmod', 'v_inc', 'v_neg', 'v_one', 'prefix0', 'v_rand', 'v_big']
PT_FAULTS = ['flip', 'flip', 'v_inf', 'v_gen', 'v_neg', 'v_dbl', 'v_rand', 'v_offcurve', 'tag', 'trunc1', 'set']
G2_FAULTS = PT_FAULTS + ['v_nosub', 'v_nosub']
GT_FAULTS = ['flip', 'v_one', 'v_gen', 'v_rand', 'v_inv', 'v_sqr', 'v_negfp', 'v_negfp', 'trunc1', 'set']
BYTES_FAULTS = ['flip', 'flip', 'flip', 'trunc1', 'trunc', 'extend', 'set', 'empty', 'zero', 'extlong', 'hashmsg']
FAULTS_BY_TYPE = {'bn': BN_FAULTS, 'ec': PT_FAULTS, 'g1': PT_FAULTS, 'g2': G2_FAULTS, 'gt': GT_FAULTS, 'bytes': BYTES_FAULTS}


class Spec:
    def __init__(self, prop, phases, fields, oracle, pc=False, rsa=False, ph=False, opts=None, weight=10, extra_faults=None):
        self.prop, self.phases, self.fields, self.oracle = prop, phases, fields, oracle
        self.pc, self.rsa, self.ph = pc, rsa, ph
        self.opts = opts or (lambda rng: {})
        self.weight = weight
        self.extra_faults = extra_faults or []


SCHEMES = {}


# ----------------------------------------------------------------------------- plan generation

def gen_plan(rng, tier, config, opts):
    want = opts.get('prop')         # C05 or C06: sessions of that property's schemes dominate
    lines = ['relic-sim-plan 1', 'engine protosim', 'config ' + config]
    lines.append('ENTROPY ' + rng.bytes(20).hex())
    names = [n for n, s in SCHEMES.items() if want not in ('C05', 'C06') or s.prop == want]
    profile = rng.weighted([('rsa', 14), ('pairing', 46), ('plain', 40)])
    if config in ('Apkcs1', 'Abasic', 'Anocrt'):
        profile = 'rsa'                 # these configurations differ from A only in the RSA code
    if config == 'A381':
        curve = 'B12_P381'
        profile = 'pairing' if profile != 'rsa' else 'rsa'
    elif profile == 'pairing':
        curve = 'BN_P256'
    else:
        curve = rng.choice(CURVES_PLAIN + ['BN_P256'])
    lines.append('CURVE ' + curve)
    pc = curve in ('BN_P256', 'B12_P381')
    if profile == 'rsa':
        lines.append('RSAKEY %d' % rng.choice(RSABITS))
        pool = [n for n in names if SCHEMES[n].rsa]
        nsess = rng.choice([6, 8, 8])
    else:
        pool = [n for n in names if not SCHEMES[n].rsa and (pc or not SCHEMES[n].pc)]
        if profile == 'pairing':
            pp = [n for n in pool if SCHEMES[n].pc]
            pool = pp * 3 + pool
        nsess = rng.choice([1, 2, 3, 4, 5, 6])
    if not pool:
        pool = [n for n in names if not SCHEMES[n].rsa and not SCHEMES[n].pc] or names
    if any(SCHEMES[n].ph for n in pool):
        lines.append('PHKEY %d' % rng.choice([256, 384, 512]))
    faulty = not rng.chance(0.25)
    sess = []
    for sid in range(min(nsess, 8)):
        name = rng.weighted([(n, SCHEMES[n].weight) for n in pool])
        sp = SCHEMES[name]
        o = dict(mlen=rng.choice(MLENS) if rng.chance(0.7) else rng.randint(0, 300),
                 pack=rng.below(2), mkind=rng.weighted([('rand', 8), ('zeros', 1), ('ff', 1), ('lead0', 1)]))
        o.update(sp.opts(rng))
        if name == 'rsasig' and o.get('hash') == 1:
            o['mlen'] = 32              # the pre-hashed interface takes a SHA-256 digest
        lines.append('SESSION %d %s %s' % (sid, name, ' '.join('%s=%s' % kv for kv in o.items())))
        sigpts = [f for f, t in sp.fields.items() if t in ('g1', 'g2', 'ec') and f not in KEYFIELDS]
        allpts = [(f, t) for f, t in sp.fields.items() if t in ('g1', 'g2', 'ec')]      # target-group values are system parameters
        if faulty and sp.prop == 'C05' and len(allpts) >= 2 and rng.chance(0.03):
            # the trivial triple: every group element - key material included - is the identity.  It needs no key
            # and no signer, so no verifier may accept it for any message.
            for f, t in allpts:
                lines.append('FAULT %d %s v_inf %d %d' % (sid, f, rng.below(100000), rng.below(256)))
        elif faulty and len(sigpts) >= 2 and rng.chance(0.05):
            # a dishonest sender sets every point of the signature / proof to the identity at once
            for f in sigpts:
                lines.append('FAULT %d %s v_inf %d %d' % (sid, f, rng.below(100000), rng.below(256)))
        elif faulty and rng.chance(0.75):
            nf = rng.choice([1, 1, 1, 2])
            flds = list(sp.fields.items())
            for _ in range(nf):
                if sp.extra_faults and (not flds or rng.chance(0.2)):
                    f, k = rng.choice(sp.extra_faults)
                elif not flds:
                    continue
                else:
                    f, t = rng.choice(flds)
                    k = rng.choice(FAULTS_BY_TYPE[t])
                lines.append('FAULT %d %s %s %d %d' % (sid, f, k, rng.below(100000), rng.below(256)))
        sess.append((sid, sp.phases))
    steps = []
    for sid, ph in sess:
        steps += [sid] * (ph + 1)
    if rng.chance(0.7):
        rng.shuffle(steps)              # interleave the sessions' phases on the one library context
    lines += ['STEP %d' % s for s in steps]
    return '\n'.join(lines) + '\n'


# ----------------------------------------------------------------------------- transcript parsing

def unhex(s):
    return b'' if s in ('-', '') else bytes.fromhex(s)


def sint(s):
    """signed hex as logged by log_bn_kv"""
    if s.startswith('-'):
        return -int(s[1:] or '0', 16)
    return int(s or '0', 16)


class Sess:
    def __init__(self, sid, scheme):
        self.sid, self.scheme = sid, scheme
        self.msg = b''
        self.opts = {}
        self.m = {}         # field -> dict(type, kind, orig, oval, sent, dec, val, same)
        self.ver = {}
        self.rc = {}
        self.out = {}
        self.key = {}
        self.deliver = {}
        self.shares = []
        self.notes = []
        self.collected = None
        self.thrown = False
        self.code = False
        self.done = False
        self.steps = 0
        self.lines = []

    def faults(self):
        fl = sorted('%s:%s' % (f, r['kind']) for f, r in self.m.items() if r['kind'] != 'none')
        if 'forged-for-identity-key' in self.notes:
            fl = ['identity-public-key-forgery']       # whatever else was altered, the key is the identity
        fl += sorted(n for n in self.notes if n.startswith('coordinated-') or n in ('forged-extension', 'related-key-adapted'))
        if 'forged-for-order-two-key' in self.notes:
            fl = ['order-two-off-curve-key-forgery']
        if any(n.startswith('one-bit-of-r-off') for n in self.notes):
            fl = ['one-bit-of-r-off'] + fl
        if 'valid-signature-with-large-x' in self.notes:
            fl = ['valid-signature-with-large-x'] + fl
        if 'forged-with-identity-ephemeral' in self.notes:
            fl = ['identity-ephemeral-forgery'] + [f for f in fl if not f.startswith('forge:')]
        return fl

    def changed(self, field):
        """True if what the receiver decoded differs in value from what the honest sender computed."""
        r = self.m.get(field)
        if r is None:
            return False
        if r['dec'] != 'ok':
            return True
        t = r['type']
        if t == 'bn':
            return sint(r['val']) != int.from_bytes(r['orig'], 'big')
        if t in ('ec', 'g1', 'g2'):
            return unhex(r['val']) != r['oval']
        if t == 'gt':
            return r.get('same') != '1'
        return r['sent'] != r['orig']

    def decode_failed(self):
        return any(r['dec'] != 'ok' for r in self.m.values())

    def undamaged_decode_failed(self):
        return [f for f, r in self.m.items() if r['dec'] != 'ok' and r['sent'] == r['orig']]


def kvs(fields):
    d = {}
    for f in fields:
        if '=' in f:
            k, v = f.split('=', 1)
            d[k] = v
    return d


def parse(transcript):
    ctx = dict(param={}, rsa=None, ph=None, curve=None)
    sess = {}
    for ln in transcript.split('\n'):
        f = ln.split(' ')
        t = f[0]
        if not t:
            continue
        if t == 'PARAM':
            d = kvs(f)
            ctx['param'] = {k: (int(v) if k in ('fpbytes', 'pc', 'level') else sint(v)) for k, v in d.items()}
            P = ctx['param']
            ctx['curve'] = models.Curve(P['p'], P['a'], P['b'], P['n'], P['h'], P['gx'], P['gy'])
        elif t == 'KEY' and f[1] == 'rsa':
            d = kvs(f)
            if d.get('rc') == '0':
                ctx['rsa'] = {k: sint(v) for k, v in d.items() if k in ('n', 'e', 'd', 'p', 'q')}
                ctx['rsa']['bits'] = int(d['bits'])
        elif t == 'KEY' and f[1] == 'phpe':
            d = kvs(f)
            if d.get('rc') == '0':
                ctx['ph'] = sint(d['n'])
        elif t == 'SESSION':
            sid = int(f[1])
            if f[3] == 'skipped':
                sess.pop(sid, None)
                continue
            s = Sess(sid, f[2])
            d = kvs(f)
            s.msg = unhex(d.get('msg', '-'))
            s.opts = {k: v for k, v in d.items() if k != 'msg'}
            sess[sid] = s
        elif t in ('MSG', 'VER', 'RC', 'OUT', 'KEY', 'DELIVER', 'SHARE', 'COLLECTED', 'THROWN', 'CODE', 'DONE', 'STEP', 'NOTE', 'INFO', 'SETS'):
            try:
                sid = int(f[1])
            except ValueError:
                continue
            s = sess.get(sid)
            if s is None:
                continue
            s.lines.append(ln)
            if t == 'MSG':
                d = kvs(f)
                s.m[f[2]] = dict(type=f[3], kind=d['kind'], orig=unhex(d['orig']), sent=unhex(d['sent']), dec=d['dec'],
                                 val=d.get('val', ''), oval=unhex(d.get('oval', '-')), same=d.get('same'), insub=d.get('insub'))
            elif t == 'VER':
                s.ver[f[2]] = f[3]
            elif t == 'RC':
                s.rc.setdefault(f[2], []).append(f[3])
            elif t == 'OUT':
                if len(f) > 3 and f[3].startswith('v='):
                    s.out[f[2]] = sint(f[3][2:])
                else:
                    s.out[f[2]] = unhex(f[3]) if len(f) > 3 else b''
            elif t == 'KEY':
                s.key.update({k: sint(v) for k, v in kvs(f).items()})
            elif t == 'DELIVER':
                s.deliver[f[2]] = int(kvs(f)['copies'])
            elif t == 'SHARE':
                d = kvs(f)
                s.shares.append((sint(d['x']), sint(d['y'])))
            elif t == 'COLLECTED':
                s.collected = int(f[2])
            elif t == 'THROWN':
                s.thrown = True
            elif t == 'CODE':
                s.code = True
            elif t == 'DONE':
                s.done = True
            elif t == 'STEP':
                s.steps += 1
            elif t in ('NOTE', 'INFO'):
                s.notes.append(' '.join(f[2:]))
    return ctx, sess


# ----------------------------------------------------------------------------- oracles

class V:
    """collects violations of one session"""

    def __init__(self, out, s, prop):
        self.out, self.s, self.prop = out, s, prop

    def bad(self, what, detail):
        fs = self.s.faults()
        fl = '+'.join(fs) or 'none'
        # zero-prefixed integers keep their value: they do not distinguish findings
        fs = [f for f in fs if not (f.endswith(':prefix0') and self.s.m.get(f.split(':')[0], {}).get('type') == 'bn')] or fs
        fl = '+'.join(fs) or 'none'
        if self.s.scheme == 'etrs':
            # faults that left the value of their field unchanged (an empty message truncated) do not tell findings apart
            fs = [f for f in fs if f.split(':')[0] not in self.s.m or self.s.changed(f.split(':')[0])] or fs
        if self.s.scheme == 'etrs' and fs and all(f.split(':')[0].rstrip('0123456789') in ('td', 'y', 'ry', 'pp') for f in fs):
            fl = 'interpolation-inputs'  # one finding: the interpolation points and pp only enter an inequality
        elif fs and all(f.endswith(':v_addord') for f in fs):
            fl = 'scalar+order'         # one finding per scheme, whichever components were shifted by the order
        self.out.violate(self.prop, '%s|%s|%s|%s' % (self.prop, self.s.scheme, fl, what),
                         '%s session %d (faults: %s): %s\n%s' % (self.s.scheme, self.s.sid, fl, detail, '\n'.join(self.s.lines)[:2500]))


def all_identity(s):
    """True if every group element of the session (keys and signature) was replaced by the identity."""
    pts = [r for r in s.m.values() if r['type'] in ('g1', 'g2', 'ec')]
    return len(pts) >= 2 and all(r['kind'] == 'v_inf' for r in pts)


def generic_sig_oracle(ver_name='ver', authenticated=None, ok_malleations=()):
    """Metamorphic oracle for a signature scheme: all fields unchanged in value => ACCEPT;
    some authenticated field changed => not ACCEPT (up to listed legal malleations)."""

    def oracle(s, ctx, v, out):
        if ver_name not in s.ver:
            return
        got = s.ver[ver_name]
        und = s.undamaged_decode_failed()
        if und:
            v.bad('undamaged-decode-failed', 'field %s arrived intact but did not decode' % und)
            return
        fields = authenticated or list(s.m.keys())
        changed = [f for f in fields if s.changed(f)]
        out.evals += 1
        out.keys.add((s.scheme, tuple(s.faults()), got, bool(changed)))
        if all_identity(s):
            out.fault('all-identity-triple')
            if got == '1':
                v.bad('all-identity|expected=reject|got=accept', 'the triple in which every group element is the identity was accepted')
            return
        if 'related-key-adapted' in s.notes:
            # an accepted proof moved to the statement Y + [d]G by adjusting the response: needs no witness, so it
            # must not verify (the challenge binds the statement)
            out.fault('related-key-adaptation')
            if got == '1':
                v.bad('related-key|expected=reject|got=accept', 'a proof for Y, adapted without the witness to Y + [d]G (r - c d), was accepted')
            return
        if any(f in ('pk',) for f in changed) and any(f not in ('pk',) for f in changed):
            out.probe('key-and-signature-both-substituted')
            return
        # a substitution that is valid by the scheme's definition
        if changed and tuple(sorted('%s:%s' % (f, s.m[f]['kind']) for f in changed)) in ok_malleations:
            out.probe('legal-malleation')
            if got != '1':
                v.bad('expected=accept|got=%s' % got, 'a legal malleation of an accepted signature was rejected')
            return
        if not changed:
            if got != '1':
                v.bad('expected=accept|got=%s' % got, 'an honest signature (every field arrived with its value unchanged) was not accepted')
            if 'ver-dup' in s.ver and s.ver['ver-dup'] != got:
                v.bad('dup-verdict-differs', 'a duplicated delivery got a different verdict')
        else:
            out.fault('altered-authenticated-field')
            if got == '1':
                v.bad('expected=reject|got=accept', 'verification accepted although %s changed in value' % changed)
    return oracle


def o_ecdsa(s, ctx, v, out):
    if 'ver' not in s.ver:
        return
    und = s.undamaged_decode_failed()
    if und:
        v.bad('undamaged-decode-failed', 'field %s arrived intact but did not decode' % und)
        return
    got = s.ver['ver']
    if got == 'decode-failed':
        out.keys.add(('ecdsa', 'decode-failed', tuple(s.faults())))
        return
    cv = ctx['curve']
    Q = cv.decode_uncompressed(unhex(s.m['pk']['val']))
    r, ss = sint(s.m['r']['val']), sint(s.m['s']['val'])
    msg = s.m['msg']['sent']
    pre = s.opts.get('hash') != '0' or 'forged-for-order-two-key' in s.notes or any(n.startswith('one-bit-of-r-off') for n in s.notes)
    digest = msg if pre else hashlib.sha256(msg).digest()
    exp = models.ecdsa_verify(cv, Q, digest, r, ss)
    out.evals += 1
    out.keys.add(('ecdsa', tuple(s.faults()), got, exp, s.opts.get('hash'), min(len(msg), 70)))
    if exp != (got == '1'):
        v.bad('expected=%s|got=%s' % ('accept' if exp else 'reject', 'accept' if got == '1' else 'reject'),
              'the FIPS 186-4 reference verification says %s (r=%x s=%x, key %s, digest %s)' % (
                  'valid' if exp else 'invalid', r, ss, 'identity' if Q is None else 'point', digest.hex()[:80]))
    if 'ver-dup' in s.ver and s.ver['ver-dup'] != got:
        v.bad('dup-verdict-differs', 'a duplicated delivery got a different verdict')
    if not s.faults() and got != '1':
        v.bad('expected=accept|got=reject', 'honest signature rejected')


def o_ecss(s, ctx, v, out):
    if 'ver' not in s.ver:
        return
    und = s.undamaged_decode_failed()
    if und:
        v.bad('undamaged-decode-failed', 'field %s arrived intact but did not decode' % und)
        return
    got = s.ver['ver']
    if got == 'decode-failed':
        out.keys.add(('ecss', 'decode-failed', tuple(s.faults())))
        return
    cv = ctx['curve']
    Q = cv.decode_uncompressed(unhex(s.m['pk']['val']))
    e, ss = sint(s.m['e']['val']), sint(s.m['s']['val'])
    msg = s.m['msg']['sent']
    exp = models.ecss_verify(cv, Q, msg, e, ss, ctx['param']['fpbytes'])
    out.evals += 1
    out.keys.add(('ecss', tuple(s.faults()), got, exp, min(len(msg), 70)))
    if exp != (got == '1'):
        v.bad('expected=%s|got=%s' % ('accept' if exp else 'reject', 'accept' if got == '1' else 'reject'),
              'the reference EC-Schnorr verification says %s (e=%x s=%x, key %s)' % ('valid' if exp else 'invalid', e, ss, 'identity' if Q is None else 'point'))
    if not s.faults() and got != '1':
        v.bad('expected=accept|got=reject', 'honest signature rejected')


def o_rsasig(s, ctx, v, out):
    if 'ver' not in s.ver or ctx['rsa'] is None:
        return
    k = ctx['rsa']
    got = s.ver['ver'] == '1'
    msg = s.m['msg']['sent']
    sig = s.m['sig']['sent']
    pre = s.opts.get('hash') == '1'
    pad = ctx.get('rsapad', 'PKCS2')
    out.evals += 1
    out.keys.add(('rsasig', tuple(s.faults()), got, pre, k['bits'] % 8, min(len(msg), 70)))
    if pre and len(msg) != 32:
        # a pre-hashed input that is not a SHA-256 digest (e.g. after truncation on the wire).  EMSA-PSS is defined
        # on mHash of exactly hLen octets, so no such input has a valid signature: a verifier that accepts one accepts
        # a triple obtained by altering an accepted one (a prefix of the digest; the empty string with every signature).
        # PKCS#1 v1.5 and BASIC padding carry the digest with its length, nothing is asserted for them.
        if pad == 'PKCS2' and got:
            v.bad('expected=reject|got=accept|prehashed-len=%s' % ('0' if len(msg) == 0 else '<32' if len(msg) < 32 else '>32'),
                  'pre-hashed verification accepted a %d-byte input as the digest (SHA-256 digests have 32 bytes)' % len(msg))
        return
    mhash = msg if pre else hashlib.sha256(msg).digest()
    if pad == 'PKCS2':
        exp = models.rsa_pss_verify(k['n'], k['e'], mhash, sig)
    elif pad == 'PKCS1':
        exp = models.rsa_pkcs1_sig_verify(k['n'], k['e'], mhash, sig)
    else:
        exp = models.rsa_basic_sig_verify(k['n'], k['e'], mhash, sig)
    if exp is None:
        changed = s.changed('sig') or s.changed('msg')
        if not changed and not got:
            v.bad('expected=accept|got=reject', 'honest signature rejected')
        if changed and got and s.m['sig']['kind'] not in ('prefix0', 'v_addmod'):
            v.bad('expected=reject|got=accept', 'altered signature accepted')
        return
    if exp != got:
        v.bad('expected=%s|got=%s|nbits%%8=%d' % ('accept' if exp else 'reject', 'accept' if got else 'reject', k['bits'] % 8),
              'RFC 8017 reference verification says %s for a %d-bit modulus, %d-byte signature' % (
                  'valid' if exp else 'invalid', k['bits'], len(sig)))


def o_rsaenc(s, ctx, v, out):
    k = ctx['rsa']
    if k is None:
        return
    pad = ctx.get('rsapad', 'PKCS2')
    klen = (k['bits'] + 7) // 8
    maxlen = klen - {'PKCS2': 66, 'PKCS1': 11, 'BASIC': 2}[pad]
    enc_rc = s.rc.get('enc', [None])[0]
    out.evals += 1
    if enc_rc == '1':
        out.keys.add(('rsaenc', 'refused', len(s.msg) > maxlen))
        if 0 < len(s.msg) <= maxlen:
            v.bad('encrypt-refused', 'a %d-byte plaintext (maximum %d) was refused' % (len(s.msg), maxlen))
        return
    if len(s.msg) > maxlen:
        v.bad('oversize-plaintext-accepted', 'a %d-byte plaintext was encrypted although the maximum is %d' % (len(s.msg), maxlen))
        return
    if 'dec' not in s.rc:
        return
    ct = s.m['ct']['sent']
    rc = s.rc['dec'][0]
    if pad == 'PKCS2':
        exp = models.rsa_oaep_decrypt(k['n'], k['d'], ct)
    elif pad == 'PKCS1':
        exp = models.rsa_pkcs1_decrypt(k['n'], k['d'], ct)
    else:
        exp = models.rsa_basic_decrypt(k['n'], k['d'], ct)
    out.keys.add(('rsaenc', tuple(s.faults()), rc, min(len(s.msg), 200), s.opts.get('mkind')))
    if exp == 'skip':
        if not s.faults() and (rc != '0' or s.out.get('pt') != s.msg):
            v.bad('roundtrip', 'decryption of an honest ciphertext did not return the plaintext')
        return
    if exp == b'':
        # relic does not admit empty plaintexts at encryption; whether an encoding of the empty message
        # decrypts to nothing or to an error is not decided by the property
        out.probe('empty-plaintext-encoding')
        return
    if exp is None:
        out.fault('invalid-ciphertext')
        if rc == '0':
            v.bad('expected=reject|got=data', 'the RFC 8017 reference decryption reports a decryption error, relic returned %d bytes' % len(s.out.get('pt', b'')))
    else:
        if rc != '0':
            v.bad('expected=plaintext|got=error', 'the reference decryption returns %d bytes, relic reported an error' % len(exp))
        elif s.out.get('pt') != exp:
            v.bad('wrong-plaintext', 'relic returned %s, the reference %s' % (s.out.get('pt', b'').hex()[:80], exp.hex()[:80]))
    if not s.faults() and exp != s.msg:
        v.bad('roundtrip', 'decryption of an honest ciphertext does not return the plaintext (model: %s)' % (exp.hex()[:60] if exp else exp))


def _minbytes(x):
    return x.to_bytes(max(1, (x.bit_length() + 7) // 8), 'big')


def o_ecdh(s, ctx, v, out):
    cv = ctx['curve']
    if 'da' not in s.key:
        return
    klen = int(s.opts.get('klen', 32))
    for me, sk, peer_field in (('keyA', 'da', 'qb'), ('keyB', 'db', 'qa')):
        r = s.m.get(peer_field)
        if r is None or me not in s.rc:
            continue
        if r['dec'] != 'ok':
            continue
        Q = cv.decode_uncompressed(unhex(r['val']))
        out.evals += 1
        P = cv.mul(s.key[sk], cv.mul(cv.h, Q)) if cv.on_curve(Q) else 'invalid'
        rc = s.rc[me][0]
        out.keys.add(('ecdh', r['kind'], rc, klen))
        if P is None or P == 'invalid':
            if rc == '0' and me in s.out:
                v.bad('degenerate-share-accepted', 'peer value is %s but a key was derived' % ('the identity' if P is None else 'not on the curve'))
            continue
        exp = models.kdf2(_minbytes(P[0]), klen)
        if rc != '0':
            v.bad('expected=key|got=error', '%s: key derivation failed for a valid peer value' % me)
        elif s.out.get(me) != exp:
            v.bad('wrong-key', '%s: derived %s, the protocol defines %s' % (me, s.out.get(me, b'').hex(), exp.hex()))
    if not s.faults() and 'keyA' in s.out and 'keyB' in s.out and s.out['keyA'] != s.out['keyB']:
        v.bad('keys-differ', 'honest parties derived different keys')


def o_ecmqv(s, ctx, v, out):
    cv = ctx['curve']
    if 'a1' not in s.key:
        return
    n = cv.n
    l = (n.bit_length() + 1) // 2
    klen = int(s.opts.get('klen', 32))

    def xbar(P):
        return (P[0] % (1 << l)) | (1 << l)

    for me, d1, d2, f1, f2 in (('keyA', 'a1', 'a2', 'qb1', 'qb2'), ('keyB', 'b1', 'b2', 'qa1', 'qa2')):
        if me not in s.rc or f1 not in s.m or f2 not in s.m:
            continue
        if s.m[f1]['dec'] != 'ok' or s.m[f2]['dec'] != 'ok':
            continue
        Q1 = cv.decode_uncompressed(unhex(s.m[f1]['val']))
        Q2 = cv.decode_uncompressed(unhex(s.m[f2]['val']))
        if Q1 is None or Q2 is None or not cv.on_curve(Q1) or not cv.on_curve(Q2):
            continue            # degenerate peer values: nothing asserted
        if cv.h != 1 and (s.changed(f1) or s.changed(f2)) and (cv.mul(n, Q1) is not None or cv.mul(n, Q2) is not None):
            # a peer value outside the prime-order subgroup (curves with a cofactor): the protocol's value
            # is defined for subgroup elements only; nothing asserted beyond termination
            out.probe('peer-value-outside-subgroup')
            continue
        own = cv.mul(s.key[d2], cv.G)
        sig = (xbar(own) * s.key[d1] + s.key[d2]) % n
        P = cv.add(cv.mul(sig, Q2), cv.mul(xbar(Q2) * sig % n, Q1))
        out.evals += 1
        out.keys.add(('ecmqv', s.m[f1]['kind'], s.m[f2]['kind'], s.rc[me][0]))
        if P is None:
            continue
        exp = models.kdf2(_minbytes(P[0]), klen)
        if s.rc[me][0] != '0':
            v.bad('expected=key|got=error', '%s failed for valid peer values' % me)
        elif s.out.get(me) != exp:
            v.bad('wrong-key', '%s: derived %s, the protocol defines %s' % (me, s.out.get(me, b'').hex(), exp.hex()))
    if not s.faults() and 'keyA' in s.out and 'keyB' in s.out and s.out['keyA'] != s.out['keyB']:
        v.bad('keys-differ', 'honest parties derived different keys')


def o_ecies(s, ctx, v, out):
    if 'dec' not in s.rc:
        return
    rc = s.rc['dec'][0]
    out.evals += 1
    und = s.undamaged_decode_failed()
    if und:
        v.bad('undamaged-decode-failed', 'field %s arrived intact but did not decode' % und)
        return
    def same_x(f):
        r = s.m.get(f)
        if r is None or r['dec'] != 'ok':
            return False
        a, b = unhex(r['val']), r['oval']
        return len(a) == len(b) and len(a) > 1 and a[:1 + (len(a) - 1) // 2] == b[:1 + (len(b) - 1) // 2]

    # the shared secret is an x-coordinate: -R (or -Q at the sender) yields the same keys, so the
    # ciphertext is valid by the scheme's definition (benign malleability)
    changed = [f for f in ('pk', 'R') if s.changed(f) and not same_x(f)] + [f for f in ('ct',) if s.changed(f)]
    if 'forged-with-identity-ephemeral' in s.notes:
        changed.append('keyless-forgery')
    if any(s.changed(f) and same_x(f) for f in ('pk', 'R')):
        out.probe('legal-malleation')
    out.keys.add(('ecies', tuple(s.faults()), rc, min(len(s.msg), 70)))
    if rc == 'decode-failed':
        return
    if 'pk' in changed and 'R' in changed and 'keyless-forgery' not in changed:
        # whoever replaced the key the sender encrypts to can also adapt the ephemeral value (pk := 2 pk with
        # R := 2 R gives both sides the same secret): a man in the middle on an unauthenticated key; nothing asserted
        out.probe('key-and-ciphertext-both-substituted')
        return
    if not changed:
        if rc != '0' or s.out.get('pt') != s.msg:
            v.bad('roundtrip', 'honest ciphertext: rc=%s plaintext %s (sent %s)' % (rc, s.out.get('pt', b'').hex()[:60], s.msg.hex()[:60]))
    else:
        out.fault('altered-authenticated-field')
        if rc == '0':
            v.bad('expected=reject|got=data', 'decryption returned data although %s changed' % changed)


def o_phpe(s, ctx, v, out):
    n = ctx['ph']
    if n is None or 'sum' not in s.out:
        return
    k = int(s.opts.get('k', 2))
    exp = 0
    for i in range(k):
        exp += s.deliver.get('c%d' % i, 1) * s.out.get('pt%d' % i, 0)
    out.evals += 1
    wraps = exp >= n
    out.keys.add(('phpe', tuple(sorted(s.deliver.values())), wraps, s.opts.get('cls')))
    if wraps:
        out.probe('homomorphic-sum-wraps-modulus')
    if s.out['sum'] != exp % n:
        v.bad('wrong-sum', 'combined ciphertext decrypts to %x, the delivered plaintexts sum to %x mod n' % (s.out['sum'], exp % n))


def o_sss(s, ctx, v, out):
    q = ctx['param']['n']
    k = int(s.opts.get('k', 2))
    if s.collected is None:
        return
    out.evals += 1
    out.keys.add(('sss', k, s.opts.get('n'), s.collected, tuple(s.faults()), s.opts.get('ord')))
    if s.collected < k:
        out.probe('below-threshold')
        return
    xs = [x for x, _ in s.shares[:k]]
    ys = [y for _, y in s.shares[:k]]
    exp = models.lagrange_at_zero(xs, ys, q)
    if s.rc.get('key', ['1'])[0] != '0':
        v.bad('reconstruct-failed', 'reconstruction from %d shares reported an error' % k)
        return
    if s.out.get('recovered') != exp:
        v.bad('wrong-secret', 'reconstructed %x, Lagrange interpolation at zero of the delivered shares gives %x' % (s.out.get('recovered', -1), exp))
    if all(not s.changed(f) for f in s.m) and exp != s.out.get('secret'):
        v.bad('wrong-secret', 'a qualifying set of unmodified shares does not interpolate to the dealt secret')


def o_bls(s, ctx, v, out):
    r = s.m.get('pk')
    if r and r['kind'] == 'v_nosub' and r['dec'] == 'ok' and r.get('insub') == '0':
        out.fault('public-key-outside-subgroup')
        if s.ver.get('ver') == '1':
            v.bad('pk:v_nosub|expected=reject|got=accept', 'a public key outside the order-r subgroup was accepted')
    generic_sig_oracle()(s, ctx, v, out)


def hopts(rng):
    return dict(hash=rng.below(2))


SCHEMES.update({
    'ecdsa': Spec('C05', 4, dict(pk='ec', r='bn', s='bn', msg='bytes'), o_ecdsa, weight=14,
                  opts=lambda rng: dict(hash=rng.below(2), dup=rng.below(2), cls=1 if rng.chance(0.3) else 0),
                  extra_faults=[('forge', 'v_forgeinf'), ('forge', 'v_forgeord2'), ('forge', 'v_forgelargex'), ('forge', 'v_forgecmp'),
                                ('forge', 'v_forgecmp')]),
    # x-only Schnorr: (e, n - s) under -Q is itself a valid triple
    'ecss': Spec('C05', 4, dict(pk='ec', e='bn', s='bn', msg='bytes'), o_ecss, extra_faults=[('forge', 'v_forgeinf')]),
    'rsasig': Spec('C05', 3, dict(sig='bytes', msg='bytes'), o_rsasig, rsa=True, opts=hopts,
                   extra_faults=[('sig', 'v_addmod'), ('sig', 'prefix0'), ('sig', 'strip0'), ('sig', 'strip0'), ('sig', 'v_encflip'), ('sig', 'v_encflip'), ('sig', 'v_encflip')]),
    'bls': Spec('C05', 4, dict(pk='g2', sig='g1', msg='bytes'), o_bls, pc=True),
    'rsaenc': Spec('C06', 3, dict(ct='bytes'), o_rsaenc, rsa=True,
                   opts=lambda rng: dict(mlen=rng.choice([1, 2, 10, 29, 30, 31, 60, 61, 62, 63, 85, 117, 0, 200])),
                   extra_faults=[('ct', 'v_encflip'), ('ct', 'strip0')]),
    'ecdh': Spec('C06', 5, dict(qa='ec', qb='ec'), o_ecdh, opts=lambda rng: dict(klen=rng.choice([16, 32, 33, 64, 1]))),
    'ecmqv': Spec('C06', 5, dict(qa1='ec', qa2='ec', qb1='ec', qb2='ec'), o_ecmqv,
                  opts=lambda rng: dict(klen=rng.choice([16, 32, 48]))),
    'ecies': Spec('C06', 5, dict(pk='ec', R='ec', ct='bytes'), o_ecies, weight=12, extra_faults=[('forge', 'v_forgeinf')],
                  opts=lambda rng: dict(dup=rng.below(2))),      # dup = 1: decryption in place
    'phpe': Spec('C06', 6, dict(), o_phpe, ph=True, opts=lambda rng: dict(k=rng.randint(1, 4), cls=rng.choice([0, 0, 1, 2]), dup=rng.below(2)),
                 extra_faults=[('c0', 'drop'), ('c1', 'dup'), ('c0', 'dup'), ('c2', 'drop'), ('c1', 'drop')]),
    'sss': Spec('C06', 2, dict(sh0='bn', sh1='bn', sh2='bn', sh3='bn'), o_sss,
                opts=lambda rng: (lambda k: dict(k=k, n=rng.randint(k, 8), ord=rng.below(50), cls=rng.choice([0, 0, 0, 1, 2])))(rng.randint(2, 6)),
                extra_faults=[('sh0', 'drop'), ('sh1', 'drop'), ('sh2', 'drop'), ('sh3', 'drop'), ('sh4', 'drop'), ('sh5', 'flip')]),
})

from . import protosim_extra  # noqa: E402  (registers the remaining schemes)


def crash_sig(plan, diag, prop):
    """A sanitizer abort inside a session is identified by the first relic function on the stack that is
    not a generic copy / encode helper."""
    from .core import crash_signature
    cs = crash_signature(diag, skip=('dv_copy', 'bn_copy', 'dv_zero', 'fp_copy', 'ep_write_bin', 'ep2_write_bin', 'ep_copy', 'bn_write_bin', 'memcpy', 'memset'))
    return prop, '%s|crash|%s' % (prop, cs)


def check(plan, transcript, config, opts):
    out = Outcome()
    ctx, sess = parse(transcript)
    ctx['rsapad'] = {'Apkcs1': 'PKCS1', 'Abasic': 'BASIC'}.get(config, 'PKCS2')
    want = opts.get('prop')
    for sid, s in sorted(sess.items()):
        sp = SCHEMES.get(s.scheme)
        if sp is None:
            continue
        v = V(out, s, sp.prop)
        if s.thrown:
            # a step of an honest or adversarial session must never escape through the error mechanism
            # without a verdict; the receiving side's calls return codes
            out.probe('step-threw')
        try:
            sp.oracle(s, ctx, v, out)
        except (KeyError, ValueError, IndexError, TypeError):
            # records missing because the shrinker removed plan lines: nothing asserted
            out.probe('oracle-skipped-incomplete-session')
        if s.done and not s.faults() and not s.ver and not s.out and sp.fields and sp.prop == 'C05':
            # an honest session that produced neither a verdict nor an output exercises nothing
            out.probe('honest-session-without-verdict:' + s.scheme)
        for r in s.m.values():
            if r['kind'] != 'none':
                out.fault(r['kind'])
        for n, c in s.deliver.items():
            if c != 1:
                out.fault('drop' if c == 0 else 'duplicate')
    out.sim_time = transcript.count('\nSTEP ')
    return out
