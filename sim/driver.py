# bin/check entry point: check <id> [--tier quick|thorough] | replay <file> | selftest-determinism | clean
import importlib
import json
import os
import sys
import time

from . import core
from .core import Rng

# property -> stages.  A stage is one engine on one build config with a run budget per tier:
#   (engine module name, config, quick runs, quick seconds cap, thorough runs, thorough seconds cap, opts)
PROPS = {
    'C05': dict(
        level='exploration',
        rule=('protosim: seeded runs of 1-8 interleaved signature sessions; every transmitted key/signature/message field is '
              'encoded, faulted on the wire or substituted by a dishonest sender, and decoded before verification; verdicts '
              'are compared with FIPS 186-4 / RFC 8017 reference models (ECDSA, RSA) or with the metamorphic rule (unchanged '
              'values accept, altered authenticated values reject, legal malleations accept); distinct = (scheme, fault set, '
              'verdict, expectation, mode)'),
        stages=[('protosim', 'A', 14000, 200, 400000, 2400, {}),
                # the other selectable padding schemes (RSA sessions only) and, in the thorough tier, the 381-bit
                # pairing-friendly curve (a G1 with a cofactor) and RSA without CRT
                ('protosim', 'Apkcs1', 1500, 60, 60000, 600, {}),
                ('protosim', 'Abasic', 1500, 60, 60000, 600, {}),
                ('protosim', 'A381', 0, 0, 40000, 1200, {}),
                ('protosim', 'Anocrt', 0, 0, 40000, 600, {})]),
    'C06': dict(
        level='exploration',
        rule=('protosim: seeded runs of interleaved encryption / key-agreement / sharing sessions over a faulty wire; outputs '
              'are compared with reference models (RFC 8017 OAEP, KDF2 over python point arithmetic, integer sums mod n, '
              'Lagrange interpolation) evaluated on what was actually delivered; distinct = (scheme, fault set, outcome, '
              'parameter class)'),
        stages=[('protosim', 'A', 14000, 200, 400000, 2400, {}),
                ('protosim', 'Apkcs1', 1500, 60, 60000, 600, {}),
                ('protosim', 'Abasic', 1500, 60, 60000, 600, {}),
                ('protosim', 'A381', 0, 0, 40000, 1200, {}),
                ('protosim', 'Anocrt', 0, 0, 40000, 600, {})]),
    'C07': dict(
        level='exploration',
        rule=('codecsim: seeded runs of ENC/FAULT/DEC/CAPW/BNSTR/RDSTR ops over a faulty store; every decode of a damaged '
              'slot must fail or yield bytes the python model accepts (coordinates < p, curve equation over Fp/Fp2/GF(2^m), '
              'known tag and length) that re-encode identically; distinct = (type, last fault kind, outcome class, length) '
              'for damaged decodes plus (type, format, generator) for clean round trips'),
        stages=[
            ('codecsim', 'A', 30000, 150, 1500000, 1800, {}),
            # thorough tier only: BLS12-381 (other field size, tags, twist)
            ('codecsim', 'A381', 0, 0, 400000, 900, {}),
            # the 255-bit primes: Curve25519 / Tweedledum and the Edwards curve (its own point type and decoder)
            ('codecsim', 'A255', 5000, 60, 400000, 900, {}),
        ]),
    'C08': dict(
        level='fault_enumeration',
        rule=('allocsim: for each drawn (op, curve, input class, seed) the op runs fault-free under two garbage-fill '
              'patterns, then once per selected allocation-failure point k (all k when the op makes <= max allocations, '
              'else a seeded subset biased to the first/last points); after each failure the same call must reproduce '
              'its fault-free result and a fixed probe its reference output, with no sanitizer report; distinct = '
              '(op, curve) baselines and (op, signalled?, leaked?) failure outcomes'),
        stages=[
            ('allocsim', 'D', 900, 150, 6000, 2400, {}),
            # capacity faults: the same op table on the static-allocation build with operands at and beyond the precision
            ('allocsim', 'A', 3000, 90, 60000, 600, {}),
            # sanitizers as monitors inside the other engines (same seeds as their own checks)
            ('codecsim', 'A', 6000, 60, 200000, 600, {}),
            ('protosim', 'A', 4000, 60, 40000, 600, {}),
            ('drbgsim', 'A', 6000, 30, 200000, 300, {}),
        ]),
    'C15': dict(
        level='exploration',
        rule=('drbgsim: seeded histories (1..64 ops) of instantiate/reseed/generate/integer-sampling/context-switch/'
              'snapshot calls with a simulated entropy device; every generate request the library makes (observed at '
              'the wrapped rand_bytes) is compared with an SP 800-90A Hash_DRBG model; distinct = (previous op, op, '
              'request-length class, carry probes hit) plus (seed op, length), (sampling op, bit-length class)'),
        stages=[
            ('drbgsim', 'A', 40000, 100, 2000000, 1500, {}),
        ]),
    'C19': dict(
        level='exploration',
        rule=('errsim: generated try/throw programs (<=60 nodes, depth<=8, 3 contexts) run with the real macros and '
              'compared event by event with an abstract exception semantics; a case is distinct by (node kind, '
              'caught?, nesting depth class, enclosing region pair) and by program shape hash'),
        stages=[
            ('errsim', 'A', 300000, 60, 6000000, 900, {}),
            ('errsim', 'D', 40000, 40, 1000000, 600, {}),
            ('ctxsim', 'A', 320, 150, 30000, 1500, {}),
            ('thrsim', 'T', 400, 120, 30000, 1500, {}),
        ]),
}


def load_engine(name):
    return importlib.import_module('sim.' + name)


def cmd_check(prop, tier, seed):
    if prop not in PROPS:
        print('property %s is not claimed (see MANIFEST.json not_applicable)' % prop)
        return 2
    spec = PROPS[prop]
    known = core.load_known()
    t0 = time.time()
    totals = []
    nviol = 0
    infra = False
    reported = set()
    unconfirmed = 0
    scale = float(os.environ.get('VERIF_SCALE', '1'))
    for (ename, config, qn, qs, tn, ts, opts) in spec['stages']:
        eng = load_engine(ename)
        n, secs = (qn, qs) if tier == 'quick' else (tn, ts)
        if n == 0:
            continue                    # stage not part of this tier
        n = max(1, int(n * scale))
        try:
            tot = core.run_engine(eng, config, prop, seed, tier, n, secs * max(scale, 1.0), opts=dict(opts, prop=prop))
        except core.BuildError as e:
            print('INFRA: build failed for %s/%s: %s' % (ename, config, str(e)[-2000:]))
            return 2
        totals.append(tot)
        if tot['infra']:
            infra = True
            for nt in tot['notes']:
                print('INFRA:', nt)
        print('[%s] %s/%s: %d/%d runs, %d oracle evaluations, %d distinct cases, %d executor deaths, %d hangs, %.1fs'
              % (prop, ename, config, tot['runs'], tot['planned'], tot['evals'], len(tot['keys']), tot['died'],
                 tot['hangs'], tot['wall_s']))
        sys.stdout.flush()
        # listed known findings: one light confirmation each (fresh executor + fresh-process replay)
        for sig, f in sorted(tot['known_seen'].items()):
            if sig in reported:
                continue
            res = core.confirm_and_report(eng, config, tot['exe'], f, prop, seed, known, opts=dict(opts, prop=prop), light=True)
            if res['kind'] == 'known':
                reported.add(sig)
                print('KNOWN-FINDING: property=%s %s [signature %s; replay=%s]' % (prop, res['what'], res['sig'], res['path']))
            elif res['kind'] == 'unconfirmed':
                print('NOTE: listed finding %s was met but did not reproduce in a fresh process (%s)' % (sig, res['why'][:200]))
        # confirm at most 4 distinct signatures per stage, lowest run index first
        seen = []
        tried = 0
        for f in tot['found']:
            if f['prop'] != prop:
                continue
            if f['sig'] in seen or f['sig'] in reported:
                continue
            if len(seen) >= 4 or tried >= 10:
                break
            tried += 1
            seen.append(f['sig'])
            res = core.confirm_and_report(eng, config, tot['exe'], f, prop, seed, known, opts=dict(opts, prop=prop))
            if res['kind'] == 'unconfirmed':
                print('UNCONFIRMED: %s' % res['why'])
                unconfirmed += 1
                seen.pop()
            elif res['kind'] == 'known':
                reported.add(f['sig'])
                print('KNOWN-FINDING: property=%s %s [signature %s; replay=%s]' % (prop, res['what'], res['sig'], res['path']))
            else:
                reported.add(f['sig'])
                nviol += 1
                print('VIOLATION property=%s replay=%s' % (prop, res['path']))
                print('  signature: %s' % res['sig'])
                print('  detail: %s' % res['detail'][:1500].replace('\n', '\n    '))
                print('  minimised to %d plan lines in %d re-executions; replay: bin/check replay %s'
                      % (res['plan_lines'], res['shrink_runs'], res['path']))
            sys.stdout.flush()
    # the committed regression plans of repaired defects (seeded/R*): a defect that returns is reported from its own plan
    from . import regress
    exes = {(t['engine'], t['config']): t['exe'] for t in totals}
    back, nreg = regress.replay(prop, exes, load_engine, known, slow=(tier != 'quick'))
    for e, sig_, det_ in back:
        if sig_ in reported:
            continue
        reported.add(sig_)
        nviol += 1
        print('VIOLATION property=%s replay=%s' % (prop, os.path.join(regress.ROOT, e['plan'])))
        print('  signature: %s' % sig_)
        print('  detail: a repaired defect is back (regression plan %s): %s' % (e['plan'], det_[:1200].replace('\n', '\n    ')))
    print('[%s] %d regression plans of repaired defects replayed, %d violate again' % (prop, nreg, len(back)))
    sys.stdout.flush()
    # every listed (unrepaired) finding of this property that the sampled runs did not happen to meet is replayed
    # from its committed plan, so that the list of KNOWN-FINDING lines does not depend on the seed
    for e in known:
        if e.get('status') != 'known' or e.get('property') != prop or not e.get('plan'):
            continue
        if any(core.sig_matches(e['signature'], r) for r in reported):
            continue
        tot = next((t for t in totals if t['engine'] == e.get('engine') and t['config'] == e.get('config')), None)
        path = os.path.join(os.path.dirname(os.path.dirname(os.path.abspath(__file__))), e['plan'])
        if tot is None or not os.path.exists(path):
            continue                    # its stage is not part of this tier
        eng = load_engine(e['engine'])
        sigs, _h, _st = core.evaluate_fresh(eng, e['config'], tot['exe'], path, prop, opts=dict(prop=prop))
        hit = [s_ for _p, s_, _d in sigs if core.sig_matches(e['signature'], s_)]
        if hit:
            reported.add(hit[0])
            print('KNOWN-FINDING: property=%s %s [signature %s; replay=%s]' % (prop, e['what'], hit[0], path))
        else:
            print('NOTE: the listed finding %s did not reproduce from its committed plan %s (repaired?)' % (e['signature'], e['plan']))
        sys.stdout.flush()
    wall = time.time() - t0
    extra = dict(
        known_findings_reported=sorted(s for s in reported if core.known_entry(s, known)),
        regression_plans_replayed=nreg,
        regression_plans_violating_again=len(back),
        build_configs=sorted(set(t['config'] for t in totals)),
        determinism='every reported violation passed two gates: the same violation signature recurs when the plan is executed '
                    'twice more, each time in a new executor process, and again when the minimised plan file is replayed in a '
                    'fresh process; a finding that does not pass is printed as UNCONFIRMED and never as a violation',
    )
    core.write_evidence(prop, tier, seed, spec['level'], totals, wall, nviol, spec['rule'], extra=extra,
                        assumptions=spec.get('assumptions', [
                            'sampling, not proof: a clean batch is evidence only',
                            'only the easy arithmetic back end at WSIZE=64 is built',
                            'oracles assert only what the property statement says (DESIGN.md 2.6)']))
    if nviol:
        return 1
    if infra or unconfirmed:
        # findings that could not be confirmed by the gates and nothing else to report: lost determinism
        return 2
    return 0


def cmd_replay(path):
    text = open(path).read()
    ename = config = None
    for ln in text.split('\n'):
        if ln.startswith('engine '):
            ename = ln.split()[1]
        if ln.startswith('config '):
            config = ln.split()[1]
    eng = load_engine(ename)
    exe = core.build(config, getattr(eng, 'EXEC', eng.NAME))
    prop = os.path.basename(path).split('-')[0]
    sigs, h, status = core.evaluate_fresh(eng, config, exe, path, prop, opts=dict(prop=prop))
    print('replay %s: status=%s transcript=%s' % (path, status, h[:16]))
    if not sigs:
        print('no violation reproduced')
        return 0
    for p, s, d in sigs:
        print('VIOLATION property=%s replay=%s' % (p, path))
        print('  signature: %s' % s)
        print('  detail: %s' % d[:3000].replace('\n', '\n    '))
    return 1


def cmd_selftest_determinism(ename, config, n, seed):
    """Runs n seeds twice each, in different worker processes and at different worker counts,
    and diffs the transcript hashes."""
    import multiprocessing as mp
    eng = load_engine(ename)
    exe = core.build(config, getattr(eng, 'EXEC', eng.NAME))

    def hashes(nworkers, q):
        res = {}
        procs = []
        qq = mp.Queue()

        def work(w):
            ex = core.Executor(exe, 'det.%d' % w)
            out = {}
            for i in range(w, n, nworkers):
                plan = eng.gen_plan(Rng.derive(seed, eng.NAME, config, i), 'quick', config, {})
                st, tr, diag = ex.run(plan, timeout=getattr(eng, 'TIMEOUT', 60.0))
                out[i] = st + ':' + core.tr_hash(tr)
            ex.close()
            qq.put(out)
        for w in range(nworkers):
            p = mp.Process(target=work, args=(w,))
            p.start()
            procs.append(p)
        for _ in procs:
            res.update(qq.get())
        for p in procs:
            p.join()
        return res
    a = hashes(16, None)
    b = hashes(4, None)
    c = hashes(1 if n <= 300 else 7, None)
    bad = [i for i in range(n) if not (a[i] == b[i] == c[i])]
    print('selftest-determinism %s/%s: %d seeds x 3 executions at worker counts 16/4/%d: %d divergent'
          % (ename, config, n, 1 if n <= 300 else 7, len(bad)))
    if bad:
        print('divergent indices:', bad[:20])
        return 1
    return 0


def main(argv):
    if not argv:
        print(__doc__ or 'usage: check <id> [--tier quick|thorough] | replay <file> | selftest-determinism <engine> <config> [n] | clean')
        return 2
    seed = int(os.environ.get('VERIF_SEED', '1'))
    cmd = argv[0]
    if cmd == 'clean':
        core.clean_scratch()
        return 0
    if cmd == 'replay':
        return cmd_replay(argv[1])
    if cmd == 'selftest-determinism':
        n = int(argv[3]) if len(argv) > 3 else 2000
        return cmd_selftest_determinism(argv[1], argv[2], n, seed)
    if cmd == 'check':
        argv = argv[1:]
    prop = argv[0]
    tier = os.environ.get('VERIF_TIER') or 'quick'
    if '--tier' in argv:
        tier = argv[argv.index('--tier') + 1]
        if os.environ.get('VERIF_TIER'):
            tier = os.environ['VERIF_TIER']
    if tier not in ('quick', 'thorough'):
        tier = 'quick'
    return cmd_check(prop, tier, seed)
