# Reference models written from the standards in plain python integers and hashlib.
# They never call relic.
import hashlib
import hmac as _hmac

H = hashlib.sha256
HLEN = 32


# ----------------------------------------------------------------------------- KDF / MGF

def kdf2(z, n, start=1):
    out = b''
    c = start
    while len(out) < n:
        out += H(z + c.to_bytes(4, 'big')).digest()
        c += 1
    return out[:n]


def mgf1(seed, n):
    return kdf2(seed, n, start=0)


def hmac_sha256(key, msg):
    return _hmac.new(key, msg, H).digest()


# ----------------------------------------------------------------------------- short Weierstrass curves over F_p

class Curve:
    def __init__(self, p, a, b, n, h, gx, gy):
        self.p, self.a, self.b, self.n, self.h = p, a, b, n, h
        self.G = (gx, gy)

    def on_curve(self, P):
        if P is None:
            return True
        x, y = P
        return 0 <= x < self.p and 0 <= y < self.p and (y * y - (x * x * x + self.a * x + self.b)) % self.p == 0

    def neg(self, P):
        return None if P is None else (P[0], (-P[1]) % self.p)

    # Jacobian arithmetic
    def _dbl(self, P):
        X, Y, Z = P
        p = self.p
        if Y == 0 or Z == 0:
            return (1, 1, 0)
        S = 4 * X * Y * Y % p
        M = (3 * X * X + self.a * pow(Z, 4, p)) % p
        X3 = (M * M - 2 * S) % p
        Y3 = (M * (S - X3) - 8 * pow(Y, 4, p)) % p
        Z3 = 2 * Y * Z % p
        return (X3, Y3, Z3)

    def _add(self, P, Q):
        p = self.p
        if P[2] == 0:
            return Q
        if Q[2] == 0:
            return P
        Z1Z1 = P[2] * P[2] % p
        Z2Z2 = Q[2] * Q[2] % p
        U1 = P[0] * Z2Z2 % p
        U2 = Q[0] * Z1Z1 % p
        S1 = P[1] * Q[2] * Z2Z2 % p
        S2 = Q[1] * P[2] * Z1Z1 % p
        if U1 == U2:
            if S1 != S2:
                return (1, 1, 0)
            return self._dbl(P)
        Hh = (U2 - U1) % p
        R = (S2 - S1) % p
        H2 = Hh * Hh % p
        H3 = Hh * H2 % p
        X3 = (R * R - H3 - 2 * U1 * H2) % p
        Y3 = (R * (U1 * H2 - X3) - S1 * H3) % p
        Z3 = Hh * P[2] * Q[2] % p
        return (X3, Y3, Z3)

    def _aff(self, P):
        if P[2] == 0:
            return None
        zi = pow(P[2], -1, self.p)
        return (P[0] * zi * zi % self.p, P[1] * zi * zi * zi % self.p)

    def mul(self, k, P):
        if P is None or k == 0:
            return None
        if k < 0:
            return self.mul(-k, self.neg(P))
        R = (1, 1, 0)
        Q = (P[0], P[1], 1)
        while k:
            if k & 1:
                R = self._add(R, Q)
            Q = self._dbl(Q)
            k >>= 1
        return self._aff(R)

    def add(self, P, Q):
        if P is None:
            return Q
        if Q is None:
            return P
        return self._aff(self._add((P[0], P[1], 1), (Q[0], Q[1], 1)))

    def decode_uncompressed(self, data):
        """'04 | x | y' (or '00' for the identity) as produced by the executor's canonical re-encoding."""
        if data == b'\x00':
            return None
        l = (len(data) - 1) // 2
        return (int.from_bytes(data[1:1 + l], 'big'), int.from_bytes(data[1 + l:], 'big'))


# ----------------------------------------------------------------------------- ECDSA (FIPS 186-4 6.4)

def bits2int_leftmost(data, nbits):
    """Leftmost min(nbits, 8*len) bits of the digest as an integer (FIPS 186-4 6.4 step 2)."""
    e = int.from_bytes(data, 'big')
    if 8 * len(data) > nbits:
        # relic first cuts to ceil(nbits/8) bytes and then shifts: the same leftmost nbits bits
        e >>= 8 * len(data) - nbits
    return e


def ecdsa_verify(cv, Q, digest, r, s):
    """digest: the byte string that plays the role of Hash(M).  Q: affine point or None."""
    n = cv.n
    if not (1 <= r < n and 1 <= s < n):
        return False
    # public key validation (SP 800-56A 5.6.2.3 partial): not the identity, in range, on the curve
    if Q is None or not cv.on_curve(Q):
        return False
    e = bits2int_leftmost(digest, n.bit_length())
    w = pow(s, -1, n)
    u1, u2 = e * w % n, r * w % n
    R = cv.add(cv.mul(u1, cv.G), cv.mul(u2, Q))
    if R is None:
        return False
    return R[0] % n == r


def ecss_verify(cv, Q, msg, e, s, fbytes):
    """EC-Schnorr as relic defines it: R = sG + eQ, e' = leftmost bits of SHA-256(msg | x(R) mod n) mod n; with
    public-key validation (not the identity, on the curve)."""
    n = cv.n
    if not (0 <= e < n and 1 <= s < n):
        return False
    if Q is None or not cv.on_curve(Q):
        return False
    R = cv.add(cv.mul(s, cv.G), cv.mul(e, Q))
    rv = 0 if R is None else R[0] % n
    h = hashlib.sha256(msg + rv.to_bytes(fbytes, 'big')).digest()
    ev = bits2int_leftmost(h, n.bit_length()) % n
    return ev == e


# ----------------------------------------------------------------------------- RSA (RFC 8017)

def rsa_pss_verify(n, e, mhash, sig, slen=0):
    """RSASSA-PSS-VERIFY with SHA-256, MGF1-SHA-256 and salt length slen (relic uses 0)."""
    k = (n.bit_length() + 7) // 8
    if len(sig) != k:
        return False
    s = int.from_bytes(sig, 'big')
    if s >= n:
        return False
    m = pow(s, e, n)
    embits = n.bit_length() - 1
    emlen = (embits + 7) // 8
    if m >> (8 * emlen):
        return False
    em = m.to_bytes(emlen, 'big')
    if emlen < HLEN + slen + 2:
        return False
    if em[-1] != 0xBC:
        return False
    mdb = em[:emlen - HLEN - 1]
    hh = em[emlen - HLEN - 1:-1]
    zbits = 8 * emlen - embits
    if zbits and mdb[0] >> (8 - zbits):
        return False
    dbmask = mgf1(hh, emlen - HLEN - 1)
    db = bytearray(a ^ b for a, b in zip(mdb, dbmask))
    if zbits:
        db[0] &= 0xFF >> zbits
    ps = emlen - HLEN - slen - 2
    if any(db[:ps]) or db[ps] != 1:
        return False
    salt = bytes(db[len(db) - slen:]) if slen else b''
    return H(b'\x00' * 8 + mhash + salt).digest() == hh


SHA256_DIGESTINFO = bytes.fromhex('3031300d060960864801650304020105000420')


def rsa_pkcs1_sig_verify(n, e, mhash, sig):
    k = (n.bit_length() + 7) // 8
    if len(sig) != k:
        return False
    s = int.from_bytes(sig, 'big')
    if s >= n:
        return False
    em = pow(s, e, n).to_bytes(k, 'big')
    t = SHA256_DIGESTINFO + mhash
    if k < len(t) + 11:
        return False
    return em == b'\x00\x01' + b'\xff' * (k - len(t) - 3) + b'\x00' + t


def _basic_unpad(em):
    """relic's BASIC padding: 00 | 00.. | FF | D."""
    if em[0] != 0:
        return None
    i = 1
    while i < len(em) and em[i] == 0:
        i += 1
    if i >= len(em) or em[i] != 0xFF:
        return None
    return em[i + 1:]


def rsa_basic_sig_verify(n, e, mhash, sig):
    k = (n.bit_length() + 7) // 8
    if len(sig) != k:
        return False
    s = int.from_bytes(sig, 'big')
    if s >= n:
        return False
    d = _basic_unpad(pow(s, e, n).to_bytes(k, 'big'))
    return d is not None and d == mhash


def rsa_basic_decrypt(n, d, ct):
    k = (n.bit_length() + 7) // 8
    if len(ct) != k:
        return None
    c = int.from_bytes(ct, 'big')
    if c >= n:
        return None
    return _basic_unpad(pow(c, d, n).to_bytes(k, 'big'))


def rsa_oaep_decrypt(n, d, ct, label=b''):
    """RSAES-OAEP-DECRYPT (SHA-256, MGF1-SHA-256).  Returns the message or None (decryption error)."""
    k = (n.bit_length() + 7) // 8
    if len(ct) != k or k < 2 * HLEN + 2:
        return None
    c = int.from_bytes(ct, 'big')
    if c >= n:
        return None
    em = pow(c, d, n).to_bytes(k, 'big')
    y, mseed, mdb = em[0], em[1:1 + HLEN], em[1 + HLEN:]
    seed = bytes(a ^ b for a, b in zip(mseed, mgf1(mdb, HLEN)))
    db = bytes(a ^ b for a, b in zip(mdb, mgf1(seed, k - HLEN - 1)))
    if y != 0 or db[:HLEN] != H(label).digest():
        return None
    i = HLEN
    while i < len(db) and db[i] == 0:
        i += 1
    if i >= len(db) or db[i] != 1:
        return None
    return db[i + 1:]


def rsa_pkcs1_decrypt(n, d, ct):
    k = (n.bit_length() + 7) // 8
    if len(ct) != k or k < 11:
        return None
    c = int.from_bytes(ct, 'big')
    if c >= n:
        return None
    em = pow(c, d, n).to_bytes(k, 'big')
    if em[0] != 0 or em[1] != 2:
        return None
    try:
        i = em.index(b'\x00', 2)
    except ValueError:
        return None
    if i < 10:
        return None
    return em[i + 1:]


# ----------------------------------------------------------------------------- Lagrange / Shamir

def lagrange_at_zero(xs, ys, q):
    s = 0
    for i, (xi, yi) in enumerate(zip(xs, ys)):
        num, den = 1, 1
        for j, xj in enumerate(xs):
            if i != j:
                num = num * (-xj) % q
                den = den * (xi - xj) % q
        s = (s + yi * num * pow(den, -1, q)) % q
    return s
