# allocsim: allocation-failure enumeration + garbage-fill differential (DESIGN.md 3.4.1), config D
import os
import re

from .core import Outcome, VERIF, crash_signature

NAME = 'allocsim'
TIMEOUT = 2400.0   # a thorough-tier op instance sweeps up to 1500 failure points, each three executions
SHRINK_LINES = True

_src = open(os.path.join(VERIF, 'exec', 'allocsim.c')).read()
OPS = [(m.group(1), int(m.group(2))) for m in re.finditer(r'\bE\((\w+), ([01])\)', _src)]
OPS = [o for o in OPS if o[0] != 'N']
CURVES = ['NIST_P256', 'BSI_P256', 'SM2_P256', 'SECG_K256', 'SM9_P256', 'BN_P256']
SIZES = ['norm', 'norm', 'norm', 'small', 'half', 'big', 'full', 'zero', 'one', 'order']
# scalar classes of the quantifier: reduce to zero only after reduction, negative, zero digits inside recodings
SCALAR_SIZES = ['order', 'order2', 'order3', 'negord', 'negbig', 'negbig', 'zdig', 'lowzero', 'pow2', 'ones', 'zero', 'one']
SCALAR_OPS = ('ep_mul', 'g1_mul', 'g2_mul', 'gt_exp', 'bn_rec', 'cap_rec', 'bn_mxp', 'fp_exp')
# array-taking (simultaneous / batch) ops: the element count is part of the quantifier (all n >= 0)
ARRAY_OPS = {'bn_lag', 'bn_evl', 'bn_mod_inv_sim', 'bn_mxp_sim_lot', 'fp_inv_sim', 'fp2_inv_sim', 'ep_norm_sim', 'ep_mul_sim_lotn',
             'ep_mul_sim_dig', 'pc_map_simn', 'g1_mul_sim_lot', 'g2_mul_sim_lot', 'ep2_norm_sim', 'ep2_mul_sim_dig', 'mpc_sss'}
COUNTS = [0, 0, 1, 1, 2, 3, 4, 5, 8, 9, 11, 12]
# ops whose input classes must stay inside the documented domain
SMALL_ONLY = {'bn_gen_prime_small', 'bn_factor', 'cp_rsa_gen_small'}


def gen_plan(rng, tier, config, opts):
    lines = ['relic-sim-plan 1', 'engine allocsim', 'config ' + config]
    capacity = config != 'D'        # static allocation: the fault is exhausting the configured precision
    # ops are drawn round-robin over the table first (so a quick run touches every op), then at random
    idx = opts.get('_index')
    nops = 1 if not capacity else 6
    for j in range(nops):
        name, pc = OPS[rng.below(len(OPS))]
        curve = 'BN_P256' if (pc or rng.chance(0.35)) else rng.choice(CURVES)
        lines.append('CURVE ' + curve)
        size = rng.choice(SIZES + (['full', 'full', 'edge', 'edge', 'over', 'big', 'cap', 'cap', 'cap1'] if capacity else []))
        if name.startswith(SCALAR_OPS) and rng.chance(0.5):
            size = rng.choice(SCALAR_SIZES)
        if not capacity and (name.startswith('bn_mul') or name.startswith('bn_sqr') or name in ('bn_lcm',)):
            if size == 'full':
                size = 'big'
        if name in SMALL_ONLY and size in ('edge', 'over', 'cap', 'cap1'):
            size = 'full'
        maxk = 16 if tier == 'quick' else 1500
        ln = 'OP %s seed=%s size=%s fail=%s max=%d pick=%d fill=%d,%d' % (
            name, rng.bytes(8).hex(), size, 'none' if capacity else 'all', maxk, rng.below(1 << 30), rng.below(1 << 30), rng.below(1 << 30))
        if rng.chance(0.2):
            ln += ' pair=%d' % (1 + rng.below(1000))
        if name in ARRAY_OPS:
            ln += ' n=%d' % rng.choice(COUNTS)
        if capacity and rng.chance(0.3):
            ln += ' bare=1'         # a caller without a protected block: errors are reported through the sticky code only
        if name.startswith('cap_'):
            ln += ' cap=%d' % rng.choice([-17, -16, -2, -1, -1, 0, 0, 1, 16])
        lines.append(ln)
    return '\n'.join(lines) + '\n'


def kv(fields):
    d = {}
    for f in fields:
        if '=' in f:
            k, v = f.split('=', 1)
            d[k] = v
    return d


def check(plan, transcript, config, opts):
    out = Outcome()
    cur = None
    curve = '?'
    for ln in transcript.split('\n'):
        f = ln.split()
        if not f:
            continue
        if f[0] == 'CURVE':
            curve = f[1]
        elif f[0] == 'OP':
            cur = f[1]
            if len(f) < 3 or '=' not in f[2]:
                out.probe('op-skipped')
                continue
            d = kv(f)
            out.evals += 1
            out.keys.add((cur, 'baseline', curve))
            if d['filldiff'] != '0':
                out.violate('C08', 'C08|never-written-storage|%s' % cur,
                            '%s: two fault-free executions on the same inputs that differ only in the garbage pattern of '
                            'never-written heap/stack storage gave different results (%s)' % (cur, ln[:300]))
            if d.get('chain', '1') != '1':
                out.violate('C08', 'C08|handler-chain-left-dangling|%s' % cur,
                            '%s returned normally but left the handler chain pointing into its own returned frame: the next '
                            'reported error reads dead stack storage (%s)' % (cur, ln[:200]))
            if d['thrown'] != '0' or d['code'] != '0':
                out.probe('baseline-reports-error')
            out.probe('allocations-counted', int(d['A']))
            if d['thrown'] != '0' or d['code'] != '0':
                out.fault('precision-or-argument-error-reported')
        elif f[0] == 'CAP':
            d = kv(f)
            out.evals += 1
            delta = int(d['delta'])
            out.fault('output-capacity-' + ('short' if delta < 0 else 'exact' if delta == 0 else 'ample'))
            out.keys.add((f[1], 'cap', delta, d['ok']))
            if delta < 0 and d['ok'] == '1':
                out.violate('C08', 'C08|capacity|short-buffer-not-reported|%s' % f[1],
                            '%s reported success with an output buffer %d byte(s) shorter than the %s bytes it needs' % (f[1], -delta, d['need']))
            if delta >= 0 and d['ok'] == '1' and d['same'] != '1':
                out.violate('C08', 'C08|capacity|result-differs-with-exact-buffer|%s' % f[1],
                            '%s gave a different result with a buffer of need%+d bytes' % (f[1], delta))
            if delta >= 0 and d['ok'] != '1':
                out.probe('sufficient-buffer-refused:' + f[1])
        elif f[0] == 'POST':
            d = kv(f)
            out.evals += 1
            if d['probe'] != '1':
                out.violate('C08', 'C08|unusable-after-error|%s' % cur,
                            '%s: after the call (which %s) the fixed usability probe no longer gives its reference output' % (cur, 'reported an error' if d['code'] == '1' else 'returned normally'))
        elif f[0] == 'K':
            d = kv(f)
            out.evals += 1
            out.fault('allocation-failure', int(d['fired']))
            signalled = d['thrown'] == '1' or d['code'] == '1'
            out.keys.add((cur, 'k', signalled, d['live'] != '0'))
            if d['fired'] == '1' and not signalled:
                out.probe('failure-not-signalled')
                if d['silent_same'] == '0':
                    out.probe('failure-not-signalled-and-result-differs')
            if d['live'] != '0':
                out.probe('leak-after-failure')
            if d['chain'] != '1':
                out.probe('handler-chain-not-restored')
            if d['again'] != '1' or d['probe'] != '1':
                out.violate('C08', 'C08|unusable-after-allocfail|%s' % cur,
                            '%s: after allocation %s failed, %s' % (
                                cur, f[1], 'the same call, fault-free, no longer reproduces its result' if d['again'] != '1'
                                else 'the fixed usability probe no longer gives its reference output'))
    return out


def _progress(diag):
    m = re.findall(r'SIMPROGRESS op=(\w+) k=(\d+)', diag)
    return (m[-1][0], int(m[-1][1])) if m else (None, None)


def crash_sig(plan, diag, prop):
    """Crashes under an injected allocation failure are identified by the relic function at the
    top of the sanitizer stack (the sanitizer's wording depends on the garbage the freed or
    dereferenced pointer happened to hold)."""
    op, k = _progress(diag)
    # generic release helpers are skipped: the function whose finaliser called them is the site
    cs = crash_signature(diag, skip=('bn_clean', 'dv_free_dynam', 'dv_copy', 'dv_zero'))
    func = cs.split('|')[-1]
    if k:
        return 'C08', 'C08|allocfail|%s' % func
    return 'C08', 'C08|crash|%s|%s' % (op, cs)


def crash_plan(plan, diag):
    """The plan reduced to the single (op, k) that was running when the executor died."""
    op, k = _progress(diag)
    if op is None:
        return plan
    lines = []
    for ln in plan.split('\n'):
        if ln.startswith('OP '):
            if ln.split()[1] != op:
                continue
            ln = re.sub(r'fail=\S+', 'fail=%d' % k if k else 'fail=none', ln)
            ln = re.sub(r' from=\d+', '', ln)
        lines.append(ln)
    return '\n'.join(lines)


def continue_after_crash(plan, diag):
    """Resume the sweep after the failure point that killed the executor."""
    op, k = _progress(diag)
    if op is None or not k:
        return None
    lines = []
    seen = False
    for ln in plan.split('\n'):
        if ln.startswith('OP '):
            if ln.split()[1] == op and not seen:
                seen = True
                ln = re.sub(r' from=\d+', '', ln) + ' from=%d' % (k + 1)
            elif not seen:
                continue
        lines.append(ln)
    return '\n'.join(lines) if seen else None
