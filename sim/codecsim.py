# codecsim: encode -> faulty store/wire -> decode (DESIGN.md 3.3)
from .core import Outcome

NAME = 'codecsim'
TIMEOUT = 60.0

CURVES = {'A': ['NIST_P256', 'BSI_P256', 'SM2_P256', 'SECG_K256', 'SM9_P256', 'BN_P256', 'BN_P256', 'BN_P256'],
          'A381': ['B12_P381'],
          'A255': ['CURVE_25519', 'TWEEDLEDUM']}
TYPES_ALL = ['bn', 'bn', 'bnraw', 'fp', 'fp2', 'fp3', 'fp4', 'fp6', 'fp8', 'fp12', 'fb', 'ep', 'ep', 'ep', 'eb', 'eb', 'HI']
HI_TOWERS = {'fp9': (9, 0), 'fp16': (16, 0), 'fp18': (18, 12), 'fp24': (24, 16), 'fp48': (48, 32), 'fp54': (54, 36)}
TYPES_PC = ['g1', 'g2', 'g2', 'ep2', 'ep2', 'gt', 'gt']
GENS = {
    'bn': ['rand', 'rand', 'rand', 'zero', 'one', 'max', 'small'],
    'bnraw': ['rand', 'zero', 'max', 'small'],
    'fp': ['rand', 'rand', 'zero', 'one', 'max', 'small'],
    'fp2': ['rand', 'rand', 'cyc', 'cyc', 'zero', 'one', 'max'],
    'fp3': ['rand', 'zero', 'max'], 'fp4': ['rand', 'zero', 'max'], 'fp6': ['rand', 'zero', 'max'],
    'fp8': ['rand', 'zero', 'max'],
    'fp9': ['rand', 'zero', 'max'], 'fp16': ['rand', 'zero', 'max'], 'fp18': ['rand', 'zero', 'max'], 'fp24': ['rand', 'zero', 'max'],
    'fp48': ['rand', 'zero', 'max'], 'fp54': ['rand', 'zero', 'max'],
    'fp12': ['rand', 'cyc', 'cyc', 'zero', 'one', 'max'],
    'fb': ['rand', 'rand', 'zero', 'one', 'max'],
    'ep': ['rand', 'rand', 'proj', 'gen', 'inf'], 'g1': ['rand', 'proj', 'gen', 'inf'],
    'ep2': ['rand', 'rand', 'proj', 'gen', 'inf'], 'g2': ['rand', 'proj', 'gen', 'inf'],
    'eb': ['rand', 'rand', 'proj', 'gen', 'inf'],
    'ed': ['rand', 'rand', 'proj', 'gen', 'inf'],
    'gt': ['rand', 'rand', 'one', 'gen'],
}
PACKABLE = {'fp2', 'fp8', 'fp12', 'ep', 'g1', 'ep2', 'g2', 'eb', 'gt', 'ed'}
ALPHA = '0123456789ABCDEFGHIJKLMNOPQRSTUVWXYZabcdefghijklmnopqrstuvwxyz+/'


def gen_plan(rng, tier, config, opts):
    lines = ['relic-sim-plan 1', 'engine codecsim', 'config ' + config]
    lines.append('ENTROPY ' + rng.bytes(16).hex())
    curve = rng.choice(CURVES.get(config, CURVES['A']))
    lines.append('CURVE ' + curve)
    pc = curve in ('BN_P256', 'B12_P381')
    types = TYPES_ALL + (TYPES_PC * 2 if pc else []) + (['ed'] * 8 if curve == 'CURVE_25519' else [])
    faulty = not rng.chance(0.2)          # a fifth of the runs are fault free
    nops = rng.choice([4, 8, 12, 20, 30])
    slot_types = {}
    if curve == 'BN_P256' and rng.chance(0.25):
        # structured G2 points on the boundaries of the compression rule: uncompressed bytes -> decode -> encode
        # compressed -> decode (and back)
        F = 32
        for _ in range(rng.randint(1, 3)):
            (x, y) = rng.choice(special_g2_points())
            if rng.chance(0.3):
                y = ((-y[0]) % _BN256['p'], (-y[1]) % _BN256['p'])
            t = rng.choice(['ep2', 'ep2', 'g2'])
            s = rng.below(8)
            raw = b'\x04' + b''.join(c.to_bytes(F, 'big') for c in (x[0], x[1], y[0], y[1]))
            lines += ['RAW %d %s %s' % (s, t, raw.hex()), 'DEC %d %s' % (s, t), 'XCODE %d %s 1' % (s, t), 'DEC %d %s' % (s, t),
                      'XCODE %d %s 0' % (s, t), 'DEC %d %s' % (s, t)]
    if curve in _PAIRF_G1 and rng.chance(0.3):
        # points of the pairing-friendly curve whose y sits at the threshold (p - 1)/2 of the compression rule, and their
        # negatives: uncompressed bytes -> decode -> compressed -> decode -> uncompressed (the two must keep apart - also
        # when the executor process has compressed points of another pairing-friendly curve before)
        F = 32
        if rng.chance(0.7):
            # ... in the same plan (a finding must not depend on what earlier plans left in the executor process)
            other = 'SM9_P256' if curve == 'BN_P256' else 'BN_P256'
            lines += ['CURVE ' + other, 'ENC 7 ep 1 rand', 'DEC 7 ep', 'CURVE ' + curve, 'ENC 7 bn 0 rand']
        for _ in range(rng.randint(1, 3)):
            pts = special_g1_points(curve)
            if not pts:
                break
            (x, y) = rng.choice(pts)
            if rng.chance(0.5):
                y = (-y) % _PAIRF_G1[curve]['p']
            t = rng.choice(['ep', 'ep', 'g1'])
            s = rng.below(8)
            raw = b'\x04' + x.to_bytes(F, 'big') + y.to_bytes(F, 'big')
            lines += ['RAW %d %s %s' % (s, t, raw.hex()), 'DEC %d %s' % (s, t), 'XCODE %d %s 1' % (s, t), 'DEC %d %s' % (s, t),
                      'XCODE %d %s 0' % (s, t), 'DEC %d %s' % (s, t)]
    if rng.chance(0.04):
        # the point of order two (0, sqrt(b)) of the binary curve, and the compressed strings with x = 0
        s = rng.below(8)
        Bb, m, poly, b = 36, 283, _B283['poly'], _B283['b']
        y = b
        for _ in range(m - 1):
            y = gf2_mul(y, y, poly, m)                  # sqrt(b) = b^(2^(m-1))
        raw = b'\x04' + (0).to_bytes(Bb, 'big') + y.to_bytes(Bb, 'big')
        lines += ['RAW %d eb %s' % (s, raw.hex()), 'DEC %d eb' % s, 'XCODE %d eb 1' % s, 'DEC %d eb' % s, 'XCODE %d eb 0' % s, 'DEC %d eb' % s,
                  'RAW %d eb %s' % (s, (bytes([rng.choice([2, 3])]) + bytes(Bb)).hex()), 'DEC %d eb' % s]
    for _ in range(nops):
        r = rng.below(100)
        if r < 62:
            s = rng.below(8)
            t = rng.choice(types)
            if t == 'HI':
                t = rng.choice(sorted(HI_TOWERS))
            fmt = rng.below(2) if t in PACKABLE else 0
            g = rng.choice(GENS[t])
            if t in ('fp2', 'fp12') and fmt == 1 and not (pc and rng.chance(0.25)):
                # only norm-one / cyclotomic elements have a packed form; for any other element (a quarter of the packed
                # requests) the writer falls back to the plain form, whose length the size function advertises
                g = 'cyc'
                if t == 'fp2' and rng.chance(0.2):
                    g = 'one'       # ... of which 1 is the one whose second coordinate is zero (its sign bit has one valid value)
                if not pc and t == 'fp12':
                    fmt, g = 0, 'rand'   # the extension-field constants are those of the pairing tower
            if t == 'fp8':
                fmt = 0
            lines.append('ENC %d %s %d %s' % (s, t, fmt, g))
            slot_types[s] = t
            if faulty and rng.chance(0.8):
                for _ in range(rng.choice([1, 1, 1, 2, 3])):
                    lines.append(_fault(rng, s, t, slot_types))
            dt = t
            if faulty and rng.chance(0.06):
                dt = rng.choice(types)     # decoded as another type (misdirected read)
                if dt == 'HI':
                    dt = rng.choice(sorted(HI_TOWERS))
            if rng.chance(0.3) and dt in ('ep', 'g1', 'ep2', 'g2', 'eb', 'ed', 'bn', 'bnraw', 'fp', 'fb', 'gt'):
                lines.append('PRE %s %s' % (dt, rng.choice(['inf', 'inf', 'gen'])))     # what the destination object holds
            lines.append('DEC %d %s' % (s, dt))
            if rng.chance(0.15):
                lines.append('DEC %d %s' % (s, dt))    # duplicate delivery
        elif r < 74:
            t = rng.choice(types)
            if t == 'HI':
                t = rng.choice(sorted(HI_TOWERS))
            fmt = rng.below(2) if t in PACKABLE and t != 'fp8' and (pc or t not in ('fp2', 'fp12')) else 0
            delta = rng.choice([-1, -1, -1, 0, 0, 1, 1, -2, 7, -100000]) if faulty else rng.choice([0, 0, 1])
            lines.append('CAPW %s %d %s %d' % (t, fmt, rng.choice(GENS[t]), delta))
        elif r < 86:
            radix = rng.choice([2, 3, 7, 8, 10, 16, 32, 35, 36, 37, 62, 63, 64]) if rng.chance(0.6) else rng.randint(2, 64)
            delta = rng.choice([0, 0, 0, 1, 5]) if not faulty else rng.choice([0, 0, 1, -1, -1, -2, -1000])
            lines.append('BNSTR %d %s %d' % (radix, rng.choice(['rand', 'rand', 'neg', 'neg', 'zero', 'one', 'max', 'small']), delta))
        elif r < 96:
            radix = rng.choice([2, 10, 16, 35, 36, 37, 64]) if rng.chance(0.5) else rng.randint(1, 66)
            n = rng.choice([0, 1, 2, 5, 20, 60, 150, 300, 700, 1200]) if rng.chance(0.6) else rng.randint(0, 80)
            if radix < 2 or radix > 64:
                alpha = ALPHA[:10]
            elif radix < 36:
                alpha = ALPHA[:radix] + ALPHA[10:radix].lower()
            else:
                alpha = ALPHA[:radix]
            s = ''.join(alpha[rng.below(len(alpha))] for _ in range(n))
            if rng.chance(0.3):
                s = '-' + s
            if rng.chance(0.15):
                s = '0' * rng.randint(1, 30) + s.lstrip('-')
            if rng.chance(0.08):
                s = '-' + '0' * rng.randint(1, 6)          # minus zero: the value is zero, and zero has no sign
            if faulty and rng.chance(0.15) and s:
                # a character outside the alphabet somewhere (the parser may stop there: don't-care value)
                i = rng.below(len(s))
                s = s[:i] + rng.choice(['!', ' ', '~', 'z', '/', '.', '\x01']) + s[i + 1:]
            lines.append('RDSTR %d %s' % (radix, s.encode('latin-1').hex() or '-'))
        else:
            radix = rng.choice([2, 10, 16, 64]) if rng.chance(0.5) else rng.randint(2, 64)
            lines.append('FPSTR %d %s' % (radix, rng.choice(['rand', 'rand', 'zero', 'one', 'max', 'small'])))
    return '\n'.join(lines) + '\n'


def _fault(rng, s, t, slot_types):
    k = rng.weighted([('flip', 24), ('set', 8), ('tag', 8), ('last', 6), ('trunc', 9), ('cut', 4), ('extend', 6),
                      ('prefix', 5), ('zero', 3), ('ff', 2), ('splice', 5), ('replace', 3), ('setp', 9), ('inc', 9),
                      ('winff', 3), ('negc', 8), ('addp', 8)])
    a, b, src = rng.below(100000), rng.below(256), rng.below(8)
    if k == 'tag':
        a = rng.choice([0, 1, 2, 3, 4, 5, 6, 7, 0x80, 0xff]) if rng.chance(0.7) else rng.below(256)
    if k == 'last':
        a = rng.choice([0, 1, 2, 3, 0x80, 0xff]) if rng.chance(0.7) else rng.below(256)
    if k == 'setp':
        a = rng.below(12)
        b = rng.choice([0, 0, 1, 2, -1, 5, 255])
    if k == 'inc':
        a = rng.below(12)
        b = rng.choice([1, 1, 2, 255])
    if k in ('winff', 'negc', 'addp'):
        a = rng.below(12)
    if k == 'prefix':
        b = rng.choice([0, 0, 0, 1, 0xff])
    if k == 'extend':
        b = rng.choice([0, 0, 0xff, 7])
    return 'FAULT %d %s %d %d %d' % (s, k, a, b, src)


# ----------------------------------------------------------------------------- reference predicates

def kv(fields):
    d = {}
    for f in fields:
        if '=' in f:
            k, v = f.split('=', 1)
            d[k] = v
    return d


def unhex(s):
    return b'' if s == '-' else bytes.fromhex(s)


class Fp2:
    def __init__(self, p, qnr):
        self.p, self.q = p, qnr % p

    def mul(self, a, b):
        p = self.p
        return ((a[0] * b[0] + self.q * a[1] * b[1]) % p, (a[0] * b[1] + a[1] * b[0]) % p)

    def add(self, a, b):
        return ((a[0] + b[0]) % self.p, (a[1] + b[1]) % self.p)

    def pow(self, a, e):
        r = (1, 0)
        while e:
            if e & 1:
                r = self.mul(r, a)
            a = self.mul(a, a)
            e >>= 1
        return r

    def is_square(self, a):
        if a == (0, 0):
            return True
        return self.pow(a, (self.p * self.p - 1) // 2) == (1, 0)


def _fp2_cbrt(f2, c):
    """A cube root of c in F_p^2 (Adleman-Manders-Miller for q = p^2 = 1 mod 9), or None if c is not a cube."""
    if c == (0, 0):
        return (0, 0)
    q = f2.p * f2.p
    if f2.pow(c, (q - 1) // 3) != (1, 0):
        return None
    s_, t = 0, q - 1
    while t % 3 == 0:
        s_, t = s_ + 1, t // 3
    # a generator of the 3-Sylow subgroup
    g = (2, 1)
    while f2.pow(g, (q - 1) // 3) == (1, 0):
        g = (g[0] + 1, g[1])
    a = f2.pow(g, t)                                    # order 3^s
    e = pow(3, -1, t)                                   # 3 e = 1 + m t
    m = (3 * e - 1) // t
    x0 = f2.pow(c, e)                                   # x0^3 = c * (c^t)^m
    z = f2.pow(f2.pow(c, t), m)                         # in the 3-Sylow subgroup, and a cube there
    # discrete logarithm of z to the base a, digit by digit (Pohlig-Hellman in a group of order 3^s)
    d, ainv = 0, f2.pow(a, 3 ** s_ - 1)
    w3 = f2.pow(a, 3 ** (s_ - 1))                       # primitive cube root of unity
    zz = z
    for i in range(s_):
        h = f2.pow(zz, 3 ** (s_ - 1 - i))
        k = 0 if h == (1, 0) else (1 if h == w3 else 2)
        d += k * 3 ** i
        zz = f2.mul(zz, f2.pow(ainv, k * 3 ** i))
    if d % 3:
        return None
    w = f2.pow(ainv, d // 3)                            # w^3 = z^-1
    x = f2.mul(x0, w)
    return x if f2.mul(f2.mul(x, x), x) == c else None


_B283 = dict(poly=0x0800000000000000000000000000000000000000000000000000000000000000000010a1,
             b=0x027b680ac8b8596da5a4af8a19a0303fca97fd7645309fa2a581485af6263e313b79a2f5)
_BN256 = dict(p=0xb64000000000ff2f2200000085fd5480b0001f44b6b88bf142bc818f95e3e6af, b=(4, -1))
_SPECIAL_G2 = []


_PAIRF_G1 = {'BN_P256': dict(p=0xb64000000000ff2f2200000085fd5480b0001f44b6b88bf142bc818f95e3e6af, b=17),
             'SM9_P256': dict(p=0xb640000002a3a6f1d603ab4ff58ec74521f2934b1a7aeedbe56f9b27e351457d, b=5)}
_SPECIAL_G1 = {}


def special_g1_points(curve):
    """Points of a pairing-friendly curve y^2 = x^3 + b whose y sits at the threshold (p - 1)/2 of the compression
    rule, a few units to either side: y is chosen, x is a cube root of y^2 - b (p = 1 mod 3)."""
    if curve in _SPECIAL_G1:
        return _SPECIAL_G1[curve]
    p, b = _PAIRF_G1[curve]['p'], _PAIRF_G1[curve]['b']
    f2 = Fp2(p, -1)
    pts = []
    for base, step in (((p - 1) // 2, -1), ((p + 1) // 2, 1)):
        got = 0
        for k in range(60):
            y = base + step * k
            c = (y * y - b) % p
            r = _fp2_cbrt(f2, (c, 0))
            if r is not None and r[1] == 0 and (pow(r[0], 3, p) + b - y * y) % p == 0:
                pts.append((r[0], y))
                got += 1
                if got >= 3:
                    break
    _SPECIAL_G1[curve] = pts
    return pts


def special_g2_points():
    """Points of the BN_P256 twist (a = 0, u^2 = -1) whose y-coordinate sits on a boundary of the compression rule:
    imaginary part 0 with a large / small real part, imaginary part (p-1)/2 or (p+1)/2, real part 0.  Found by
    choosing y and solving x^3 = y^2 - b (not in the order-r subgroup in general: the point codec does not care)."""
    if _SPECIAL_G2:
        return _SPECIAL_G2
    p = _BN256['p']
    f2 = Fp2(p, -1)
    b = (_BN256['b'][0] % p, _BN256['b'][1] % p)
    half = (p - 1) // 2
    fams = [lambda k: (p - 1 - k, 0), lambda k: (half + 1 + k, 0), lambda k: (half - k, 0), lambda k: (1 + k, 0),
            lambda k: (1 + k, half), lambda k: (1 + k, half + 1), lambda k: (p - 1 - k, half), lambda k: (0, 1 + k),
            lambda k: (0, p - 1 - k), lambda k: (half, half), lambda k: (1 + k, 1), lambda k: (1 + k, p - 1)]
    for fam in fams:
        got = 0
        for k in range(40):
            y = fam(k)
            y2 = f2.mul(y, y)
            c = ((y2[0] - b[0]) % p, (y2[1] - b[1]) % p)
            x = _fp2_cbrt(f2, c)
            if x is not None:
                _SPECIAL_G2.append((x, y))
                got += 1
                if got >= 2:
                    break
            if fam(0) == fam(1):
                break
    return _SPECIAL_G2


def gf2_mul(a, b, poly, m):
    r = 0
    while b:
        if b & 1:
            r ^= a
        b >>= 1
        a <<= 1
        if a >> m:
            a ^= poly
    return r


def gf2_inv(a, poly, m):
    # a^(2^m - 2)
    r = 1
    x = a
    e = (1 << m) - 2
    while e:
        if e & 1:
            r = gf2_mul(r, x, poly, m)
        x = gf2_mul(x, x, poly, m)
        e >>= 1
    return r


def gf2_trace(a, poly, m):
    t = a
    x = a
    for _ in range(m - 1):
        x = gf2_mul(x, x, poly, m)
        t ^= x
    return t


def validate(typ, data, P):
    """None if the byte string is a valid encoding of `typ` by the C07 statement, else the reason."""
    try:
        return _validate(typ, data, P)
    except KeyError:
        return None         # parameters not exported (no CURVE line survived shrinking): nothing asserted


def _validate(typ, data, P):
    p = P['p']
    F = P.get('fpbytes', 32)
    n = len(data)

    def coords(off, cnt):
        return [int.from_bytes(data[off + i * F: off + (i + 1) * F], 'big') for i in range(cnt)]

    if typ == 'bn':
        return None
    if typ == 'bnraw':
        return None
    if typ in ('fp', 'fp3', 'fp4', 'fp6'):
        k = {'fp': 1, 'fp3': 3, 'fp4': 4, 'fp6': 6}[typ]
        if n != k * F:
            return 'length'
        return None if all(c < p for c in coords(0, k)) else 'coord>=p'
    if typ == 'fp2':
        if n == 2 * F:
            return None if all(c < p for c in coords(0, 2)) else 'coord>=p'
        if n == F + 1:
            x = coords(0, 1)[0]
            if x >= p:
                return 'coord>=p'
            if data[F] > 1:
                return 'flag-byte'
            # x must be the real part of a norm-one element x + y u, u^2 = qnr: (x^2 - 1)/qnr is a square
            q = P['qnr'] % p
            t = (x * x - 1) * pow(q, p - 2, p) % p
            if t != 0 and pow(t, (p - 1) // 2, p) != 1:
                return 'not-decompressible'
            return None
        return 'length'
    if typ in HI_TOWERS:
        full, packed = HI_TOWERS[typ]
        if n == full * F:
            return None if all(c < p for c in coords(0, full)) else 'coord>=p'
        return 'length'      # an encoding of the packed length is not handed to the decoder (executor, DEC)
    if typ == 'fp8':
        if n == 8 * F:
            return None if all(c < p for c in coords(0, 8)) else 'coord>=p'
        if n == 4 * F:
            return None if all(c < p for c in coords(0, 4)) else 'coord>=p'
        return 'length'
    if typ in ('fp12', 'gt'):
        if n == 12 * F:
            return None if all(c < p for c in coords(0, 12)) else 'coord>=p'
        if n == 8 * F:
            return None if all(c < p for c in coords(0, 8)) else 'coord>=p'
        return 'length'
    if typ == 'fb':
        B, m = P['fbbytes'], P['m']
        if n != B:
            return 'length'
        return None if int.from_bytes(data, 'big') >> m == 0 else 'degree>=m'
    if typ in ('ep', 'g1'):
        a, b = P['a'], P['b']
        if n == 1:
            return None if data[0] == 0 else 'tag'
        if n == F + 1:
            if data[0] not in (2, 3):
                return 'tag'
            x = coords(1, 1)[0]
            if x >= p:
                return 'coord>=p'
            rhs = (x * x * x + a * x + b) % p
            if rhs != 0 and pow(rhs, (p - 1) // 2, p) != 1:
                return 'off-curve'
            return None
        if n == 2 * F + 1:
            if data[0] != 4:
                return 'tag'
            x, y = coords(1, 2)
            if x >= p or y >= p:
                return 'coord>=p'
            return None if (y * y - (x * x * x + a * x + b)) % p == 0 else 'off-curve'
        return 'length'
    if typ == 'ed':
        # twisted Edwards: a x^2 + y^2 = 1 + d x^2 y^2; encodings 00 | 02/03 y (parity of x) | 04 y x
        a, dd = P['eda'], P['edd']
        if n == 1:
            return None if data[0] == 0 else 'tag'
        if n == F + 1:
            if data[0] not in (2, 3):
                return 'tag'
            y = coords(1, 1)[0]
            if y >= p:
                return 'coord>=p'
            den = (a - dd * y * y) % p
            if den == 0:
                return 'off-curve'
            x2 = (1 - y * y) * pow(den, p - 2, p) % p
            if x2 != 0 and pow(x2, (p - 1) // 2, p) != 1:
                return 'off-curve'
            if x2 == 0 and data[0] == 3:
                return 'sign-of-zero'
            if x2 == 0 and y == 1:
                return 'identity-in-long-form'
            return None
        if n == 2 * F + 1:
            if data[0] != 4:
                return 'tag'
            y, x = coords(1, 2)
            if x >= p or y >= p:
                return 'coord>=p'
            if (a * x * x + y * y - 1 - dd * x * x * y * y) % p != 0:
                return 'off-curve'
            if x == 0 and y == 1:
                return 'identity-in-long-form'
            return None
        return 'length'
    if typ in ('ep2', 'g2'):
        f2 = Fp2(p, P['qnr'])
        a2 = (P['a20'], P['a21'])
        b2 = (P['b20'], P['b21'])
        if n == 1:
            return None if data[0] == 0 else 'tag'
        if n == 2 * F + 1:
            if data[0] not in (2, 3):
                return 'tag'
            x = tuple(coords(1, 2))
            if x[0] >= p or x[1] >= p:
                return 'coord>=p'
            rhs = f2.add(f2.add(f2.mul(f2.mul(x, x), x), f2.mul(a2, x)), b2)
            return None if f2.is_square(rhs) else 'off-curve'
        if n == 4 * F + 1:
            if data[0] != 4:
                return 'tag'
            c = coords(1, 4)
            if any(v >= p for v in c):
                return 'coord>=p'
            x, y = (c[0], c[1]), (c[2], c[3])
            rhs = f2.add(f2.add(f2.mul(f2.mul(x, x), x), f2.mul(a2, x)), b2)
            return None if f2.mul(y, y) == rhs else 'off-curve'
        return 'length'
    if typ == 'eb':
        B, m, poly = P['fbbytes'], P['m'], P['poly']
        a, b = P['eba'], P['ebb']
        if n == 1:
            return None if data[0] == 0 else 'tag'
        if n == B + 1:
            if data[0] not in (2, 3):
                return 'tag'
            x = int.from_bytes(data[1:], 'big')
            if x >> m:
                return 'degree>=m'
            if x == 0:
                # the point of order two (0, sqrt(b)): its compression bit is zero (SEC 1, 2.3.3)
                return None if data[0] == 2 else 'sign-of-zero'
            # y^2 + xy = x^3 + a x^2 + b solvable iff Tr(x + a + b/x^2) = 0
            xi = gf2_inv(x, poly, m)
            t = x ^ a ^ gf2_mul(b, gf2_mul(xi, xi, poly, m), poly, m)
            return None if gf2_trace(t, poly, m) == 0 else 'off-curve'
        if n == 2 * B + 1:
            if data[0] != 4:
                return 'tag'
            x = int.from_bytes(data[1:1 + B], 'big')
            y = int.from_bytes(data[1 + B:], 'big')
            if (x >> m) or (y >> m):
                return 'degree>=m'
            x2 = gf2_mul(x, x, poly, m)
            lhs = gf2_mul(y, y, poly, m) ^ gf2_mul(x, y, poly, m)
            rhs = gf2_mul(x2, x, poly, m) ^ gf2_mul(a, x2, poly, m) ^ b
            return None if lhs == rhs else 'off-curve'
        return 'length'
    return None


def to_radix(v, radix):
    if v == 0:
        return '0'
    s = ''
    neg = v < 0
    v = abs(v)
    while v:
        s = ALPHA[v % radix] + s
        v //= radix
    return ('-' if neg else '') + s


def from_radix(s, radix):
    """Value of a string over the digit alphabet of `radix`, or None if some character is not a digit."""
    neg = s.startswith('-')
    if neg:
        s = s[1:]
    v = 0
    for ch in s:
        c = ch.upper() if radix < 36 else ch
        i = ALPHA.find(c)
        if i < 0 or i >= radix:
            return None
        v = v * radix + i
    return -v if neg else v


# ----------------------------------------------------------------------------- oracle

def check(plan, transcript, config, opts):
    out = Outcome()
    P = {}
    slots = {}      # slot -> dict(type, fmt, enc (bytes), cur (bytes), faults [kinds])

    def bad(typ, cls, reason, detail):
        out.violate('C07', 'C07|%s|%s|%s' % (typ, cls, reason), detail)

    for ln in transcript.split('\n'):
        f = ln.split(' ')
        if not f or not f[0]:
            continue
        tag = f[0]
        if tag == 'PARAM':
            d = kv(f)
            for k, v in d.items():
                P[k] = int(v, 16) if k not in ('fpbytes', 'qnr', 'cnr') else int(v)
        elif tag == 'PARAME':
            d = kv(f)
            P['eda'] = int(d['a'], 16)
            P['edd'] = int(d['d'], 16)
        elif tag == 'PARAMB':
            d = kv(f)
            P['m'] = int(d['m'])
            P['fbbytes'] = int(d['fbbytes'])
            P['poly'] = int(d['poly'], 16)
            P['eba'] = int(d['a'], 16)
            P['ebb'] = int(d['b'], 16)
        elif tag == 'ENC':
            s, typ = int(f[1]), f[2]
            if f[3] == 'skipped':
                slots.pop(s, None)
                continue
            out.evals += 1
            if f[5] == 'err':
                slots.pop(s, None)
                bad(typ, 'roundtrip', 'encode-error', 'encoding an honest %s (%s) into a buffer of the advertised size failed: %s' % (typ, f[4], ln[:200]))
                continue
            d = kv(f)
            enc = unhex(d['enc'])
            slots[s] = dict(type=typ, fmt=int(f[3]), enc=enc, cur=enc, faults=[], gen=f[4])
            if 'alt' in d:
                out.probe('canonical-two-representations')
                if unhex(d['alt']) != enc:
                    bad(typ, 'noncanonical', 'projective-vs-affine', 'two representations of the same %s encode differently: %s' % (typ, ln[:300]))
            r = validate(typ, enc, P)
            if r is not None:
                bad(typ, 'roundtrip', 'encoder-output-invalid:' + r, 'the encoder produced bytes the model rejects: %s' % ln[:300])
            out.keys.add((typ, int(f[3]), f[4], 'enc'))
        elif tag == 'RAW':
            s, typ = int(f[1]), f[2]
            if f[3] == 'none':
                slots.pop(s, None)
                continue
            cur = unhex(kv(f)['now'])
            # never the output of the encoder as far as the oracle knows: judged like damaged bytes
            slots[s] = dict(type=typ, fmt=0, enc=None, cur=cur, faults=['raw'], gen='raw')
            out.fault('raw-structured-bytes')
        elif tag == 'FAULT':
            s = int(f[1])
            if f[2] == 'none' or s not in slots:
                continue
            slots[s]['cur'] = unhex(kv(f)['now'])
            slots[s]['faults'].append(f[2])
            out.fault(f[2])
        elif tag == 'DEC':
            s, typ = int(f[1]), f[2]
            if f[3] == 'none' or s not in slots:
                continue
            sl = slots[s]
            out.evals += 1
            data = sl['cur']
            damaged = data != sl['enc'] or typ != sl['type']
            kind = (sl['faults'][-1] if sl['faults'] else 'none') + ('' if typ == sl['type'] else '+as-' + typ)
            ok = f[3] == 'ok'
            d = kv(f)
            if not damaged:
                if not ok:
                    bad(typ, 'roundtrip', 'decode-error', 'decode(encode(x)) failed for %s %s: %s' % (typ, sl['gen'], data.hex()[:200]))
                else:
                    if d['same'] != '1':
                        bad(typ, 'roundtrip', 'value-differs', 'decode(encode(x)) != x for %s %s: %s' % (typ, sl['gen'], data.hex()[:200]))
                    if d['rethrown'] != '0' or d['recode'] != '0' or unhex(d['re']) != data:
                        bad(typ, 'roundtrip', 're-encode-differs', 'encode(decode(encode(x))) differs for %s %s: %s -> %s' % (typ, sl['gen'], data.hex()[:200], d.get('re', '')[:200]))
                out.keys.add((typ, len(data), 'clean', ok))
                continue
            if typ == 'bnraw':
                # the raw interface counts digits: a torn tail shorter than a digit is never passed on
                data = data[:8 * (len(data) // 8)]
                if not data:
                    continue
            reason = validate(typ, data, P)
            if ok and reason is None and d.get('cyc') == '0':
                reason = 'not-cyclotomic'      # packed bytes that are not the image of any element the encoder packs
            cls = 'error' if not ok else ('valid' if reason is None else 'invalid-accepted')
            if ok:
                out.probe('decode-succeeded-after-damage')
                if reason is not None:
                    bad(typ, 'invalid-accepted', reason,
                        'after %s the decoder for %s accepted %d bytes that are not a valid encoding (%s): %s' % (kind, typ, len(data), reason, data.hex()[:300]))
                elif d['rethrown'] != '0' or d['recode'] != '0' or unhex(d['re']) != data:
                    cls = 'unfaithful'
                    bad(typ, 'unfaithful', 'len%d' % len(data) if typ not in ('fp2',) else 'packed',
                        'after %s the decoder for %s accepted bytes whose re-encoding in the same format and length differs: %s -> %s' % (kind, typ, data.hex()[:300], d.get('re', '')[:300]))
            out.keys.add((typ, kind.split('+')[0], cls, min(len(data), 600)))
        elif tag == 'CAPW':
            if len(f) < 3 or '=' not in ln:
                continue
            d = kv(f)
            typ = f[1]
            out.evals += 1
            need, cap = int(d['need']), int(d['cap'])
            err = d['thrown'] == '1' or d['code'] == '1'
            out.fault('capacity%+d' % max(-3, min(3, cap - need)))
            if d['canary'] != '1':
                bad(typ, 'overflow', 'writer', 'writer for %s with capacity %d (needs %d) wrote outside the buffer' % (typ, cap, need))
            if cap < need and not err:
                bad(typ, 'overflow', 'short-buffer-not-reported', 'writer for %s with capacity %d < required %d reported no error' % (typ, cap, need))
            if cap == need and err:
                bad(typ, 'roundtrip', 'exact-buffer-refused', 'writer for %s refused a buffer of exactly the advertised size %d' % (typ, need))
            out.keys.add((typ, 'capw', max(-3, min(3, cap - need)), err))
        elif tag == 'BNSTR':
            if f[2] == 'size-err':
                bad('bnstr', 'roundtrip', 'size-error', ln[:200])
                continue
            d = kv(f)
            radix = int(f[1])
            out.evals += 1
            val = int.from_bytes(unhex(d['val']), 'big')
            if d['sign'] == '1':
                val = -val
            size, cap = int(d['size']), int(d['cap'])
            err = d['thrown'] == '1' or d['code'] == '1'
            exp = to_radix(val, radix)
            if d['canary'] != '1':
                bad('bnstr', 'overflow', 'writer', 'bn_write_str radix %d wrote outside a %d-character buffer' % (radix, cap))
            if len(exp) + 1 > size:
                bad('bnstr', 'roundtrip', 'size-too-small', 'bn_size_str=%d but the radix-%d text of the value needs %d characters' % (size, radix, len(exp) + 1))
            if cap >= size:
                if err:
                    bad('bnstr', 'roundtrip', 'size-buffer-refused', 'bn_write_str refused a buffer of bn_size_str characters (radix %d)' % radix)
                else:
                    got = unhex(d['str']).decode('latin-1')
                    if d['term'] != '1' or got != exp:
                        bad('bnstr', 'radix', 'write', 'bn_write_str radix %d wrote "%s", positional notation is "%s"' % (radix, got[:80], exp[:80]))
                    elif d['rd_thrown'] != '0' or d['rd_code'] != '0' or d['eq'] != '1':
                        bad('bnstr', 'radix', 'read-back', 'bn_read_str(bn_write_str(x)) != x in radix %d (x=%s)' % (radix, exp[:80]))
            elif not err:
                got = unhex(d['str']).decode('latin-1')
                if got != exp:
                    bad('bnstr', 'radix', 'write-short', 'bn_write_str into a short buffer wrote "%s" instead of "%s"' % (got[:80], exp[:80]))
            out.keys.add(('bnstr', radix, f[2], cap - size if abs(cap - size) < 3 else 9))
        elif tag == 'RDSTR':
            radix = int(f[1])
            out.evals += 1
            # the plan line carries the string
            continue
        elif tag == 'FPSTR':
            d = kv(f)
            radix = int(f[1])
            out.evals += 1
            val = int.from_bytes(unhex(d['val']), 'big')
            exp = to_radix(val, radix)
            got = unhex(d['str']).decode('latin-1')
            if d['thrown'] != '0' or d['code'] != '0' or d['eq'] != '1' or got.lstrip('0') != exp.lstrip('0'):
                bad('fpstr', 'radix', 'roundtrip', 'fp text form radix %d: wrote "%s" for %s (eq=%s thrown=%s)' % (radix, got[:80], exp[:80], d['eq'], d['thrown']))
            out.keys.add(('fpstr', radix, f[2]))
    # RDSTR: pair plan lines with transcript lines in order
    plan_rd = [ln.split() for ln in plan.split('\n') if ln.startswith('RDSTR ')]
    tr_rd = [ln.split(' ') for ln in transcript.split('\n') if ln.startswith('RDSTR ')]
    for pl, tl in zip(plan_rd, tr_rd):
        radix = int(pl[1])
        s = unhex(pl[2]).decode('latin-1')
        ok = tl[2] == 'ok'
        if radix < 2 or radix > 64:
            out.fault('radix-out-of-range')
            if ok:
                bad('bnstr', 'radix', 'bad-radix-accepted', 'bn_read_str accepted radix %d' % radix)
            continue
        exp = from_radix(s, radix)
        if s.lstrip('-') == '':
            continue                # the empty numeral: nothing is promised
        out.keys.add(('rdstr', radix, min(len(s), 40), ok, exp is None))
        if exp is None:
            out.fault('character-outside-alphabet')
            continue                # the parser may stop at the foreign character: value not asserted
        if not ok:
            if len(s) * radix.bit_length() <= 1024:
                bad('bnstr', 'radix', 'read-refused', 'bn_read_str refused the radix-%d string "%s"' % (radix, s[:80]))
            else:
                out.probe('text-longer-than-precision')
            continue
        d = kv(tl)
        val = int.from_bytes(unhex(d['val']), 'big')
        if d['sign'] == '1':
            val = -val
        if val != exp:
            bad('bnstr', 'radix', 'read', 'bn_read_str("%s", radix %d) = %d, positional notation gives %d' % (s[:80], radix, val, exp))
        elif val == 0 and d['sign'] == '1':
            bad('bnstr', 'radix', 'negative-zero', 'bn_read_str("%s", radix %d) yields a zero with negative sign (not a valid integer object: it compares below zero)' % (s[:80], radix))
    out.sim_time = len(transcript.split('\n'))
    return out


def simplify_line(line):
    f = line.split()
    if f[0] == 'FAULT':
        return ['']
    return []
