# thrsim: real threads, each with its own library context, under a seeded baton scheduler (DESIGN.md 3.6.4)
from . import ctxsim
from .core import Outcome

NAME = 'thrsim'
TIMEOUT = 60.0
SHRINK_LINES = False


FRESH_EVERY = 4     # every fourth plan of a worker starts in a new executor process (lazy, once-per-process initialisations)


def _wpark(rng, small=8):
    """One race-directed parking point (see exec/thrsim.c): which watched block / event, how far the other thread runs
    (in watch events, capped in blocks), and the fine round-robin phase that follows."""
    if rng.chance(0.7):
        kind, idx = 'first', rng.below(small)
    else:
        kind, idx = 'event', rng.choice([rng.below(small), rng.below(small), rng.below(30), rng.below(300), rng.below(3000)])
    # how many further watch events the other thread gets: a handful (it passes the same check / finishes the same
    # initialisation and starts to use the result) or hundreds (it is deep in the work that follows)
    m = rng.choice([0, 1, 2, 3, 4, 6, 10, 30, 100]) if rng.chance(0.6) else rng.choice([200, 220, 260, 300, 500, 1000, 3000])
    # the other thread may need millions of blocks to get to the same place (a selection costs 2-4 million before it reads its first constant)
    cap = rng.choice([20000, 2000000, 20000000, 20000000, 50000000])
    return 'WPARK %s %d %d %d %d %d %d' % (kind, idx, m, cap, rng.choice([500, 3000, 3000, 20000]), rng.choice([1, 1, 2, 3, 6, 20]), rng.below(1 << 30))


def gen_plan(rng, tier, config, opts):
    lines = ['relic-sim-plan 1', 'engine thrsim', 'config T']
    k = rng.choice([2, 2, 3, 3, 4])
    same = rng.chance(0.4)
    curve = rng.choice(ctxsim.CURVES)
    if rng.chance(0.35):
        # race-directed plans in a brand-new process: the same script in every thread; a thread is parked in front of a
        # block of library code that touches writable static storage (sim/watch.py) - the i-th such block ever reached in the
        # process, or the i-th such event -, another thread runs on through the same code, then both proceed in fine slices
        k = rng.choice([2, 2, 2, 3])
        cv = curve if curve != 'BN_P256' else 'NIST_P256'
        items = [rng.choice(['W_STR %d' % rng.below(1000), 'W_STR %d' % rng.choice([61, 62, 59, 40, 14, 33]), 'W_HASH %d' % rng.below(1000),
                             'W_MAP m%d' % rng.below(1000), 'W_ECDSA', 'W_SSS', 'W_PSI', 'W_ECIES', 'RAND', 'RAND',
                             'W_MUL ' + rng.bytes(20).hex(), 'W_MULGEN ' + rng.bytes(20).hex(), 'W_FPINV ' + rng.bytes(20).hex()])
                 for _ in range(rng.randint(2, 5))]
        where = rng.choice(['before', 'before', 'after', 'none'])
        lines.append('# fresh-process')
        for t in range(k):
            steps = ['RESEED ' + rng.bytes(8).hex()] + (['BARRIER'] if where == 'before' else []) + ['EPSET ' + cv] + \
                    (['BARRIER'] if where == 'after' else []) + items + ['CLRERR', 'PROBE 1']
            lines += ['THREAD %d %s' % (t, s) for s in steps]
        if where != 'none':
            lines.append('SEG 0 999999999')
        idxs = set()
        for _ in range(rng.choice([1, 1, 2])):
            w = _wpark(rng)
            key = tuple(w.split()[1:3])
            if key not in idxs:
                idxs.add(key)
                lines.append(w)
        if rng.chance(0.5):
            lines.append('RR %d %d %d' % (rng.choice([100000, 250000]), rng.choice([1, 2, 3, 6, 40]), rng.below(1 << 30)))
        else:
            lines += ['SEG %d %d' % (rng.below(k), rng.randint(1000, 2000000)) for _ in range(rng.randint(5, 60))]
        return '\n'.join(lines) + '\n'
    if rng.chance(0.12):
        # first calls of the process: a brand-new executor, two to four threads that make the same kind of call for the
        # first time in the process at (almost) the same moment, a seeded lag of up to a few hundred blocks apart -
        # whatever is built lazily on first use without synchronisation is built twice, one build under the other's use
        k = rng.choice([2, 2, 3, 4])
        first = rng.choice(['W_STR %d' % rng.choice([61, 62, 62, 59, 40, 14, rng.below(1000)]), 'W_STR %d' % rng.choice([61, 62, 62, 33]),
                            'W_HASH %d' % rng.below(1000), 'W_MAP m%d' % rng.below(1000), 'W_ECDSA', 'W_SSS', 'W_PSI', 'W_ECIES'])
        cv = curve if curve != 'BN_P256' else 'NIST_P256'
        lines.append('# fresh-process')
        # where the threads are aligned: before their first selection (whose own first calls - it reads the curve
        # constants from text - then happen under the fine schedule), after it, or not at all (fine slices from the
        # very first block of core_init)
        where = rng.choice(['before', 'before', 'after', 'none'])
        for t in range(k):
            steps = ['RESEED ' + rng.bytes(8).hex()] + (['BARRIER'] if where == 'before' else []) + ['EPSET ' + cv] + \
                    (['BARRIER'] if where == 'after' else []) + [first, first, 'W_STR %d' % rng.below(1000), 'CLRERR', 'PROBE 1']
            lines += ['THREAD %d %s' % (t, s) for s in steps]
        # initialisation and selection cost millions of blocks: the threads run up to the barrier one after the other, the
        # lag and the fine slices apply from there
        if where != 'none':
            lines.append('SEG 0 999999999')
        lines.append('SEG 0 %d' % rng.choice([1, 5, 20, 60, 150, 200, 300, 600, rng.randint(1, 1000)]))
        lines.append('RR %d %d %d' % (rng.choice([100000, 250000]), rng.choice([1, 1, 2, 3, 6]), rng.below(1 << 30)))
        return '\n'.join(lines) + '\n'
    lockstep = rng.chance(0.15)
    if lockstep:
        # two or three threads run the *same* short script of protocol work in slices of a few basic blocks each,
        # so that they sit in the same functions at the same time: a static scratch buffer or cached value shared
        # between threads is overwritten between its write and its use
        k = rng.choice([2, 2, 3])
        items = [rng.choice(['W_PSI', 'W_PSI', 'W_HASH %d' % rng.below(1000), 'W_SSS', 'W_ECIES', 'W_ECDSA', 'RAND', 'RAND', 'RAND',
                             'W_MAP m%d' % rng.below(1000), 'W_MUL ' + rng.bytes(20).hex(), 'W_STR %d' % rng.below(1000)]) for _ in range(rng.randint(2, 6))]
        if rng.chance(0.3):
            items.insert(0, 'W_STR %d' % rng.below(1000))      # text conversion first: tables built on first use
        aligned = rng.chance(0.6)      # else: fine slices from the first block of core_init (they cover initialisation and selection)
        for t in range(k):
            steps = ['RESEED ' + rng.bytes(8).hex(), 'EPSET ' + (curve if curve != 'BN_P256' else 'NIST_P256')] + (['BARRIER'] if aligned else []) + items + ['CLRERR', 'PROBE 1']
            lines += ['THREAD %d %s' % (t, s) for s in steps]
        if aligned:
            lines.append('SEG 0 999999999')      # up to the barrier one after the other (initialisation costs millions of blocks)
        if rng.chance(0.5):
            lines.append(_wpark(rng, 24))
        lines.append('SEG 0 %d' % rng.randint(1, 2000))
        # slices of a few blocks only reach the first half million blocks behind the alignment point; a protocol run costs
        # millions (hashing to primes, exponentiations), so most plans use slices of up to some tens or hundreds of blocks -
        # still shorter than the window between the write and the use of a scratch buffer
        nsl, mx = rng.choice([(500000, 3), (400000, 6), (300000, 40), (300000, 40), (200000, 200), (200000, 200), (150000, 600)])
        lines.append('RR %d %d %d' % (nsl, mx, rng.below(1 << 30)))
        return '\n'.join(lines) + '\n'
    for t in range(k):
        if same:
            # all threads work on the same curve with the same kinds of calls at the same time: a buffer,
            # table or temporary shared between threads is then overwritten while another thread uses it
            steps = ['RESEED ' + rng.bytes(8).hex(), 'PCANY' if curve == 'BN_P256' else 'EPSET ' + curve]
            for _ in range(rng.randint(6, 16)):
                kk = rng.bytes(rng.choice([8, 20, 32])).hex()
                steps.append(rng.choice(['W_MUL ' + kk, 'W_MUL ' + kk, 'W_MULGEN ' + kk, 'W_SIM ' + kk, 'W_PRE ' + kk,
                                         'W_MAP m%d' % rng.below(1000), 'W_FPINV ' + kk, 'W_ECDSA', 'RAND', 'W_FAIL 1', 'GETCODE',
                                         'W_ECIES', 'W_HASH %d' % rng.below(1000), 'W_SSS', 'W_PSI', 'W_PSI', 'W_STR %d' % rng.below(1000)]))
            steps += ['CLRERR', 'PROBE 1']
        else:
            steps, _, _ = ctxsim.gen_script(rng, maxsel=2, maxwork=6, allow_reinit=rng.chance(0.3))
        if rng.chance(0.25):
            lines.append('MODE %d lazy' % t)
        lines += ['THREAD %d %s' % (t, s) for s in steps]
    # the schedule: a mixture of very short, medium and long slices; a third of the plans start with a
    # burst of single-block slices (while the threads are inside core_init / their first selection)
    segs = []
    if rng.chance(0.3):
        lines += [_wpark(rng, 24) for _ in range(rng.choice([1, 2, 3]))]
    if rng.chance(0.35):
        for _ in range(rng.randint(50, 800)):
            segs.append((rng.below(k), rng.randint(1, 4)))
    nseg = rng.choice([10, 50, 200, 800, 2000]) if not same else rng.choice([500, 1500, 3000])
    mode = rng.weighted([('mixed', 5), ('fine', 2), ('coarse', 2)]) if not same else 'medium'
    for _ in range(nseg):
        r = rng.below(100)
        if mode == 'medium':
            n = rng.randint(500, 60000)
        elif mode == 'fine' or (mode == 'mixed' and r < 40):
            n = rng.randint(1, 10)
        elif mode == 'coarse' or r < 75:
            n = rng.randint(100, 10000) if mode != 'coarse' else rng.randint(10000, 2000000)
        else:
            n = rng.randint(100000, 3000000)
        segs.append((rng.below(k), n))
        if rng.chance(0.03):
            # a burst of single-block slices somewhere in the middle
            for _ in range(rng.randint(20, 300)):
                segs.append((rng.below(k), 1))
    lines += ['SEG %d %d' % s for s in segs]
    return '\n'.join(lines) + '\n'


def _threads(plan):
    th = {}
    for ln in plan.split('\n'):
        if ln.startswith('THREAD ') or ln.startswith('MODE '):
            t = int(ln.split()[1]) % 4
            th.setdefault(t, []).append(ln)
    return {t: v for t, v in th.items() if any(l.startswith('THREAD ') for l in v)}


def extra_runs(plan):
    hdr = 'relic-sim-plan 1\nengine thrsim\nconfig T\n'
    return [hdr + '\n'.join(v) + '\n' for t, v in sorted(_threads(plan).items())]


def _split(tr):
    d, cur, sched = {}, None, ''
    for ln in tr.split('\n'):
        if ln.startswith('THR '):
            cur = int(ln.split()[1])
            d[cur] = []
        elif ln.startswith('SCHED '):
            sched = ln
            cur = None
        elif ln and cur is not None:
            d[cur].append(ln)
    return d, sched


def check(plan, transcript, config, opts, refs=None):
    out = Outcome()
    th = _threads(plan)
    got, sched = _split(transcript)
    kv = dict(x.split('=') for x in sched.split()[1:]) if sched else {}
    sw = int(kv.get('switches', 0))
    out.fault('context-switch-between-threads', sw)
    out.sim_time = int(kv.get('blocks', 0))
    out.keys.add(('threads', len(th), min(sw, 3000) // 25))
    out.probe('lazy-initialised-thread', sum(1 for v in th.values() if any(l.startswith('MODE') and 'lazy' in l for l in v)))
    out.probe('plans-with>=1000-switches', 1 if sw >= 1000 else 0)
    out.probe('first-call-plan-in-a-new-process', 1 if '# fresh-process' in plan else 0)
    out.probe('threads-aligned-at-a-barrier', 1 if 'BARRIER' in plan else 0)
    out.probe('round-robin-lockstep-plan', 1 if '\nRR ' in plan else 0)
    out.probe('race-directed-plan', 1 if '\nWPARK ' in plan else 0)
    out.fault('thread-parked-at-shared-static-storage', int(kv.get('wparks', 0)))
    out.probe('watch-events(code-touching-writable-static-storage)', int(kv.get('wevents', 0)))
    out.probe('watch-list-loaded', 1 if int(kv.get('watched', 0)) > 0 else 0)
    refs = refs or []
    for (t, _), ref in zip(sorted(th.items()), refs):
        mine = got.get(t, [])
        out.evals += len(mine)
        for ln in mine:
            if ln.startswith('CHAIN '):
                out.violate('C19', 'C19|thrsim|handler-chain|%s' % ln.split()[1],
                            'thread %d: the handler chain of its context was not restored when the step %s returned' % (t, ln.split()[1]))
                break
        if ref[0] != 'ok':
            out.probe('solo-reference-died')
            continue
        solo = _split(ref[1])[0].get(t, [])
        if mine != solo:
            j = next((k for k in range(min(len(mine), len(solo))) if mine[k] != solo[k]), min(len(mine), len(solo)))
            a = mine[j] if j < len(mine) else '<missing>'
            b = solo[j] if j < len(solo) else '<missing>'
            out.violate('C19', 'C19|thrsim|%s|%s' % (a.split(' ')[0], ctxsim._first_diff_field(a, b)),
                        'thread %d interleaved with %d other thread(s) (%d baton switches) differs from the same script run alone '
                        'at line %d:\n  interleaved: %s\n  alone:       %s' % (t, len(th) - 1, sw, j, a[:400], b[:400]))
    return out
